/-
The one lemma the loop contracts of /verif assume instead of proving with z3 (pyvc/induct.py: permutation_lemma):
re-indexing a finite weighted count by a permutation of the index set does not change it.

`wsum d w P n` mirrors the recursive spec function of the z3 encoding (sum over i < n of w i if P (d i) else 0).
-/
import Mathlib

open Finset

/-- the recursive weighted count of the z3 encoding -/
def wsum (d w : ℕ → ℝ) (P : ℝ → Prop) [DecidablePred P] : ℕ → ℝ
  | 0 => 0
  | n + 1 => wsum d w P n + (if P (d n) then w n else 0)

theorem wsum_eq_sum (d w : ℕ → ℝ) (P : ℝ → Prop) [DecidablePred P] (n : ℕ) :
    wsum d w P n = ∑ i ∈ range n, (if P (d i) then w i else 0) := by
  induction n with
  | zero => simp [wsum]
  | succ n ih => rw [wsum, ih, Finset.sum_range_succ]

/-- p maps {0..N-1} into itself and is injective there: the weighted count over the re-indexed arrays is the same. -/
theorem wsum_perm (d w : ℕ → ℝ) (P : ℝ → Prop) [DecidablePred P] (N : ℕ) (p : ℕ → ℕ)
    (hrange : ∀ i, i < N → p i < N)
    (hinj : ∀ i j, i < N → j < N → p i = p j → i = j) :
    wsum (fun i => d (p i)) (fun i => w (p i)) P N = wsum d w P N := by
  rw [wsum_eq_sum, wsum_eq_sum]
  have hmaps : Set.MapsTo p (↑(range N)) (↑(range N)) := by
    intro i hi
    exact mem_coe.mpr (mem_range.mpr (hrange i (mem_range.mp (mem_coe.mp hi))))
  have hinj' : Set.InjOn p (↑(range N)) := by
    intro i hi j hj h
    exact hinj i j (mem_range.mp (mem_coe.mp hi)) (mem_range.mp (mem_coe.mp hj)) h
  have hsurj : Set.SurjOn p (↑(range N)) (↑(range N)) :=
    Finset.surjOn_of_injOn_of_card_le p hmaps hinj' (le_refl _)
  refine Finset.sum_bij (fun i _ => p i) ?_ ?_ ?_ ?_
  · intro i hi
    exact mem_range.mpr (hrange i (mem_range.mp hi))
  · intro i hi j hj h
    exact hinj i j (mem_range.mp hi) (mem_range.mp hj) h
  · intro j hj
    obtain ⟨i, hi, hij⟩ := hsurj (mem_coe.mpr hj)
    exact ⟨i, mem_coe.mp hi, hij⟩
  · intro i _
    rfl
