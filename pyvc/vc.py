"""Contracts, VC generation, discharge, refutation + replay on the real code."""
from __future__ import annotations

import copy
import fractions
import hashlib
import importlib
import inspect
import json
import math
import os
import time
import traceback
import numpy as np
import z3

from .interp import Interp, Ctx, PathInfeasible, PathEnd, RepoFunction, BoundMethod, PropertyObj, ClassMethodObj
from .values import (Sym, Arr, TArr, Obj, NpScalar, Untranslatable, Raised, obj_cls, obj_dict, raw, term_of, mk, real_val)

REGISTRY = {}          # key -> list[Contract]
ORDER = []
LOOP_SPECS = {}        # (function key, loop ordinal) -> {"invariant": f(L), "havoc": {name: kind}, "hints": f(L) -> [lemma instances]}


def loop_invariant(fn_key, ordinal, havoc=None, hints=None, np_flags=None, exit_hints=None):
    def deco(f):
        LOOP_SPECS[(fn_key, ordinal)] = {"invariant": f, "havoc": havoc or {}, "hints": hints or (lambda v: []), "np": np_flags or {},
                                         "exit_hints": exit_hints or (lambda v: [])}
        return f
    return deco


class Contract:
    def __init__(self, key, holder, props, name=None):
        self.key = key
        self.name = name or key
        self.props = list(props)
        self.holder = holder
        self.inputs = holder.__dict__.get("inputs")
        self.configs = holder.__dict__.get("configs", lambda: [{}])
        self.invoke = holder.__dict__.get("invoke")          # optional custom call (I/real, fn, a)
        self.bounded = bool(holder.__dict__.get("bounded", False))   # concrete extents: bounded stand-in
        self.bound_note = holder.__dict__.get("bound_note", "")
        self.mode = holder.__dict__.get("mode", "R")
        self.extent_cap = holder.__dict__.get("extent_cap", 4 if self.bounded else None)
        # standin: the function is known to be outside the interpreter's subset; the cross-check on the real code decides it
        self.standin = bool(holder.__dict__.get("standin", False))
        # fp_exact: the clauses only compare machine floats computed exactly as the code computes them, so they must also hold
        # bit-for-bit on binary64 inputs that are not dyadic (decimal literals) -- sampled by the cross-check
        self.fp_exact = bool(holder.__dict__.get("fp_exact", False))
        self.max_paths = holder.__dict__.get("max_paths", 400)
        self.ensures = []      # (name, f(a, old, result))
        self.raises = []       # (exc type, name, when(a_old), state clause f(a, old) or None)
        self.allow_raise = holder.__dict__.get("allow_raise", ())   # exception types tolerated without a spec
        self.known = holder.__dict__.get("known", {})               # clause -> [(finding id, region(a_old))]
        self.thorough_configs = holder.__dict__.get("thorough_configs")
        if isinstance(self.thorough_configs, staticmethod):
            self.thorough_configs = self.thorough_configs.__func__
        for v in _PENDING:
            tag = v._vc
            if tag[0] == "ensures":
                self.ensures.append((tag[1], v))
            elif tag[0] == "raises":
                self.raises.append((tag[1], tag[2], v, tag[3]))
        del _PENDING[:]
        names = [n for n, _ in self.ensures] + [n for _, n, _, _ in self.raises]
        assert len(names) == len(set(names)), f"duplicate clause names in {key}: {names}"
        if isinstance(self.inputs, staticmethod):
            self.inputs = self.inputs.__func__
        if isinstance(self.configs, staticmethod):
            self.configs = self.configs.__func__
        if isinstance(self.invoke, staticmethod):
            self.invoke = self.invoke.__func__


def contract(key, props=(), name=None):
    def deco(holder):
        c = Contract(key, holder, props, name)
        assert c.name not in REGISTRY, f"duplicate contract {c.name}"
        REGISTRY[c.name] = c
        ORDER.append(c.name)
        return holder
    return deco


def ensures(name):
    def deco(f):
        return _tag(f, ("ensures", name))
    return deco


def raises(exc, name, state=None):
    """`when(a)` (evaluated on the pre-state) must hold on every path that raises `exc`, and must be false on every
    path that returns normally.  `state(a, old)` is an additional clause proved on the raising paths."""
    def deco(f):
        return _tag(f, ("raises", exc, name, state))
    return deco


_PENDING = []


def _tag(f, tag):
    f._vc = tag
    _PENDING.append(f)
    return f


def _configs_for(self, tier):
    """thorough tier: `thorough_configs` replaces the quick configurations, `thorough_extra` (larger extents) is added to them"""
    if tier == "thorough" and self.thorough_configs is not None:
        return list(self.thorough_configs())
    out = list(self.configs())
    extra = self.holder.__dict__.get("thorough_extra")
    if tier == "thorough" and extra is not None:
        extra = extra.__func__ if isinstance(extra, staticmethod) else extra
        out += [c for c in extra() if c not in out]
    return out


Contract.configs_for = _configs_for


class NS:
    def __init__(self, d):
        self.__dict__.update(d)


# ----------------------------------------------------------------------------------------------
# builders

class SymB:
    """symbolic input builder"""
    mode = "sym"

    def __init__(self, I, cfg):
        self.I = I
        self.cfg = NS(cfg)
        self.symbols = {}      # name -> (sort, term)

    def _reg(self, name, sort, t):
        self.symbols[name] = (sort, t)
        return t

    def real(self, name, np=False, nan=False):
        t = self._reg(name, "real", z3.Real(name))
        n = self._reg(name + "?nan", "bool", z3.Bool(name + "?nan")) if nan else None
        return Sym(t, "float", np, n)

    def int(self, name, np=False):
        return Sym(self._reg(name, "int", z3.Int(name)), "int", np)

    def bool(self, name):
        return Sym(self._reg(name, "bool", z3.Bool(name)), "bool")

    def array(self, name, shape, dtype="float64", nan=False):
        dt = np.dtype(dtype)
        shape = (shape,) if isinstance(shape, int) else tuple(shape)
        n = 1
        for s in shape:
            n *= s
        el = []
        for i in range(n):
            if dt.kind == "f":
                el.append(self.real(f"{name}[{i}]", True, nan))
            elif dt.kind in "iu":
                el.append(self.int(f"{name}[{i}]", True))
            else:
                e = self.bool(f"{name}[{i}]")
                el.append(Sym(e.t, "bool", True))
        return Arr.from_list(el, shape, dt)

    def carray(self, values, dtype=None):
        return self.I.np.as_arr(values, dtype)

    def tarray(self, name, extents, dtype="float64"):
        """array with SYMBOLIC extents (z3 array term); extents: Sym ints (shared between arrays) or concrete ints"""
        dt = np.dtype(dtype)
        esort = z3.RealSort() if dt.kind == "f" else (z3.IntSort() if dt.kind in "iu" else z3.BoolSort())
        extents = tuple(extents) if isinstance(extents, (tuple, list)) else (extents,)
        arr = z3.Array(name, *([z3.IntSort()] * len(extents)), esort)
        self.symbols[name] = ("array", (arr, extents, dt))
        return TArr(arr, extents, dt)

    def obj(self, clskey, **attrs):
        cls = self.I.find_class(clskey)
        o = Obj(cls)
        obj_dict(o).update(attrs)
        return o

    def new(self, clskey, *args, **kwargs):
        return self.I.call(self.I.find_class(clskey), list(args), kwargs)

    def call(self, key, *args, **kwargs):
        return self.I.call(self.I.find(key), list(args), kwargs)

    def touch(self, obj, name, *args, call=False):
        """read a property / call a method of an input object while the inputs are built (fills the object's lazy caches);
        an exception of the read is swallowed (the cache then simply stays cold)"""
        try:
            v = self.I.getattr(obj, name)
            return self.I.call(v, list(args), {}) if call else v
        except Raised:
            return None

    def module_attr(self, modname, name):
        return self.I.load_module(modname).d[name]

    def assume(self, cond):
        self.I.ctx.assume(cond, "requires")

    def nparr(self, x):
        return x

    def dtype(self, name):
        return np.dtype(name)

    def carray_col(self, arr, j):
        return self.I.np.getitem(arr, (slice(None), j)).copy()

    def series(self, lib, arr, name=None, numeric=True, has_nulls=False):
        from .libstubs import Series
        if not numeric:
            arr = Arr.from_list(["a"] * arr.shape[0], arr.shape, object)
        return Series(self.I, lib, arr, name, numeric, has_nulls)

    def frame(self, lib, cols):
        from .libstubs import Frame
        return Frame(self.I, lib, list(cols), {k: (v if hasattr(v, "lib") else self.series(lib, v, k)) for k, v in cols.items()})


class ConcB:
    """concrete input builder: same calls, real objects, values from a model"""
    mode = "conc"

    def __init__(self, cfg, model):
        self.cfg = NS(cfg)
        self.model = model
        self.inexact = []

    def _val(self, name, default=0):
        return self.model.get(name, default)

    def real(self, name, np=False, nan=False):
        if nan and self.model.get(name + "?nan"):
            v = float("nan")
        else:
            fr = self._val(name, 0)
            v = float(fr)
            if isinstance(fr, fractions.Fraction) and fractions.Fraction(v) != fr:
                self.inexact.append(name)
        return _np_mod().float64(v) if np else v

    def int(self, name, np=False):
        v = int(self._val(name, 0))
        return _np_mod().int64(v) if np else v

    def bool(self, name):
        return bool(self._val(name, False))

    def array(self, name, shape, dtype="float64", nan=False):
        dt = np.dtype(dtype)
        shape = (shape,) if isinstance(shape, int) else tuple(shape)
        n = 1
        for s in shape:
            n *= s
        vals = []
        for i in range(n):
            if dt.kind == "f":
                vals.append(self.real(f"{name}[{i}]", False, nan))
            elif dt.kind in "iu":
                vals.append(self.int(f"{name}[{i}]"))
            else:
                vals.append(self.bool(f"{name}[{i}]"))
        return np.array(vals, dtype=dt).reshape(shape)

    def carray(self, values, dtype=None):
        return np.asarray(values, dtype=dtype)

    def tarray(self, name, extents, dtype="float64"):
        v = self.model.get(name)
        if v is None:
            extents = tuple(extents) if isinstance(extents, (tuple, list)) else (extents,)
            return np.zeros(tuple(int(e) for e in extents), dtype=dtype)
        arr = np.array(v, dtype=dtype)
        ext = tuple(extents) if isinstance(extents, (tuple, list)) else (extents,)
        if arr.size == 0 and len(ext) > 1:      # an empty nested list has lost its trailing extents
            arr = arr.reshape((0,) + tuple(int(e) for e in ext[1:]))
        return arr

    def obj(self, clskey, **attrs):
        cls = real_object(clskey)
        o = cls.__new__(cls)
        for k, v in attrs.items():
            object.__setattr__(o, k, v)
        return o

    def new(self, clskey, *args, **kwargs):
        return real_object(clskey)(*args, **kwargs)

    def call(self, key, *args, **kwargs):
        return real_object(key)(*args, **kwargs)

    def touch(self, obj, name, *args, call=False):
        try:
            v = getattr(obj, name)
            return v(*args) if call else v
        except Exception:
            return None

    def module_attr(self, modname, name):
        return getattr(importlib.import_module(modname), name)

    def assume(self, cond):
        if not bool(cond):
            raise PreconditionFalse()

    def nparr(self, x):
        return x

    def dtype(self, name):
        return np.dtype(name)

    def series(self, lib, arr, name=None, numeric=True, has_nulls=False):
        vals = list(arr) if numeric else ["a"] * len(arr)
        if lib == "pandas":
            import pandas
            return pandas.Series(vals, name=name, dtype=(arr.dtype if numeric else object))
        import polars
        if has_nulls:
            vals = [None] + vals[1:] if vals else vals
        return polars.Series(name if name is not None else "", vals)

    def frame(self, lib, cols):
        if lib == "pandas":
            import pandas
            return pandas.DataFrame({k: (v if not isinstance(v, np.ndarray) else v) for k, v in cols.items()})
        import polars
        return polars.DataFrame({k: v for k, v in cols.items()})


class PreconditionFalse(Exception):
    pass


def _np_mod():
    return np


def real_object(key):
    modname, _, qual = key.partition(":")
    o = importlib.import_module(modname)
    if not qual:
        return o
    parts = qual.split(".")
    for i, p in enumerate(parts):
        if isinstance(o, type) and i == len(parts) - 1:
            raw_attr = inspect.getattr_static(o, p)
            if isinstance(raw_attr, property):
                return raw_attr.fget
            if hasattr(raw_attr, "__wrapped__") and not isinstance(raw_attr, (classmethod, staticmethod)):
                pass
        o = getattr(o, p)
    return o


# ----------------------------------------------------------------------------------------------
# source binding

def source_info(I, key):
    """file, line span, sha256 of the function under contract + check that CPython runs the same text."""
    fn = I.find(key)
    path, src = I.sources[fn.module]
    seg = __import__("ast").get_source_segment(src, fn.node)
    info = {"key": key, "file": os.path.relpath(path, os.path.dirname(I.repo_src)), "lines": [fn.node.lineno, fn.node.end_lineno],
            "sha256": hashlib.sha256(seg.encode()).hexdigest()}
    try:
        real = real_object(key)
        real = getattr(real, "__func__", real)
        real = inspect.unwrap(real) if not hasattr(real, "register") else real
        if hasattr(real, "registry"):    # singledispatch: default implementation
            real = real.registry[object]
        rs = inspect.getsource(real)
        import textwrap
        a = textwrap.dedent(rs).strip()
        # decorators are part of getsource but not of the FunctionDef segment
        lines = a.splitlines()
        while lines and lines[0].lstrip().startswith("@"):
            lines.pop(0)
        b = textwrap.dedent(seg).strip()
        info["runs_same_text"] = ("\n".join(lines).strip() == textwrap.dedent("\n".join(b.splitlines())).strip()) or \
            ("".join("\n".join(lines).split()) == "".join(b.split()))
    except Exception as e:  # pragma: no cover
        info["runs_same_text"] = None
        info["binding_note"] = f"{type(e).__name__}: {e}"
    return info


# ----------------------------------------------------------------------------------------------
# verification of one contract under one configuration

class Result:
    def __init__(self):
        self.obligations = []    # dicts
        self.paths = 0
        self.untranslatable = []
        self.errors = []
        self.stubs = set()
        self.assumed = 0
        self.solver_s = 0.0
        self.violations = []
        self.executed = set()
        self.samples_run = 0
        self.samples_failed = 0
        self.sample_errors = []

    def to_json(self):
        return {"obligations": self.obligations, "paths": self.paths, "untranslatable": self.untranslatable,
                "executed": sorted(self.executed), "samples_run": self.samples_run, "samples_failed": self.samples_failed,
                "sample_errors": self.sample_errors[:3],
                "errors": self.errors, "stubs": sorted(self.stubs), "solver_s": self.solver_s,
                "violations": self.violations}


def cfg_id(cfg):
    if not cfg:
        return "-"
    return ",".join(f"{k}={_short(v)}" for k, v in cfg.items())


def _short(v):
    if isinstance(v, type):
        return v.__name__
    if isinstance(v, np.dtype):
        return str(v)
    return str(v)


def call_symbolic(I, c, a, cfg=None):
    fn = I.find(c.key)
    if c.invoke is not None:
        return c.invoke(I, fn, a, NS(cfg or {}))
    return I.call(fn, [], {k: v for k, v in a.__dict__.items() if not k.startswith("_cfg_")})


def call_real(c, a, cfg=None):
    real = real_object(c.key)
    if c.invoke is not None:
        return c.invoke(None, real, a, NS(cfg or {}))
    return real(**{k: v for k, v in a.__dict__.items() if not k.startswith("_cfg_")})


def _to_goal(v):
    v = raw(v)
    if isinstance(v, Sym):
        return term_of(v, "bool")
    if isinstance(v, (bool, np.bool_)):
        return z3.BoolVal(bool(v))
    if z3.is_expr(v):
        return v
    raise TypeError(f"clause returned {type(v).__name__}, expected a truth value")


def run_path(I, c, cfg, decisions):
    """one symbolic execution of the function under contract `c`; returns (ctx, builder, records)"""
    I.ctx = Ctx(decisions, qf_probe=(c.holder.__dict__.get("probe") == "quantifier-free"))
    I.extent_cap = c.extent_cap
    I.reset_state()
    if "environ" in c.holder.__dict__:
        env = c.holder.__dict__["environ"]
        env = env.__func__ if isinstance(env, staticmethod) else env
        I._environ.d = dict(env(cfg))
    b = SymB(I, cfg)
    records = []
    inp = c.inputs(b)
    a = NS(inp)
    old = NS(I.snapshot(inp))
    for k, v in cfg.items():
        setattr(a, "_cfg_" + k, v)
        setattr(old, "_cfg_" + k, v)
    outcome = None
    I.loop_specs = dict(LOOP_SPECS)
    try:
        result = call_symbolic(I, c, a, cfg)
        outcome = ("return", result)
    except Raised as r:
        outcome = ("raise", r.exc)
    except PathEnd:
        outcome = ("loop-step", None)
    ctx = I.ctx
    path = "".join("T" if d else "F" for d in ctx.trace) or "-"
    if outcome[0] == "loop-step":
        pass
    elif outcome[0] == "return":
        # `using`: lemma instances at the function's exit -- the hypotheses become obligations (lemma-pre), the conclusion of the
        # (proved-on-this-run) lemma is then available to the ensures clauses
        using = c.holder.__dict__.get("using")
        if using is not None:
            for lem, largs in using(a, old, outcome[1]):
                if lem.assumed:
                    raise Untranslatable("an assumed lemma cannot be used at a function exit")
                ctx.oblige(f"{c.name}:exit:{lem.name}", "lemma-pre", lem.hyps(*largs), {})
                ctx.assume(lem.stmt(*largs, lem.upto(*largs)), "lemma instance " + lem.name)
        for name, f in c.ensures:
            try:
                g = _to_goal(f(a, old, outcome[1]))
            except (Raised, Untranslatable, PathInfeasible):
                raise
            relaxed = None
            if name in c.known:
                regs = [_to_goal(reg(old)) for _, reg in c.known[name]]
                relaxed = (c.known[name][0][0], z3.Or(g, *regs))
            records.append(("ensures", name, list(ctx.pc), g, relaxed))
        for exc, name, when, state in c.raises:
            g = _to_goal(when(old))
            relaxed = None
            if ("raises-complete:" + name) in c.known:
                regs = [_to_goal(reg(old)) for _, reg in c.known["raises-complete:" + name]]
                relaxed = (c.known["raises-complete:" + name][0][0], z3.Or(z3.Not(g), *regs))
            records.append(("raises-complete", name, list(ctx.pc), z3.Not(g), relaxed))
    else:
        exc = outcome[1]
        matched = False
        for et, name, when, state in c.raises:
            if isinstance(et, str):
                et = I.find_class(et)
            if I.exc_matches(exc, et):
                matched = True
                g = _to_goal(when(old))
                ename = type(exc).__name__ if isinstance(exc, BaseException) else I.type_name(exc)
                relaxed = None
                if ("raise:" + ename) in c.known:
                    regs = [_to_goal(reg(old)) for _, reg in c.known["raise:" + ename]]
                    relaxed = (c.known["raise:" + ename][0][0], z3.Or(g, *regs))
                records.append(("raises-sound", name, list(ctx.pc), g, relaxed))
                if state is not None:
                    gs = _to_goal(state(a, old))
                    relaxed = None
                    if ("raises-state:" + name) in c.known:
                        regs = [_to_goal(reg(old)) for _, reg in c.known["raises-state:" + name]]
                        relaxed = (c.known["raises-state:" + name][0][0], z3.Or(gs, *regs))
                    records.append(("raises-state", name, list(ctx.pc), gs, relaxed))
                break
        if not matched:
            if c.allow_raise and I.exc_matches(exc, tuple(c.allow_raise)):
                pass
            else:
                ename = type(exc).__name__ if isinstance(exc, BaseException) else I.type_name(exc)
                relaxed = None
                if ("raise:" + ename) in c.known:
                    regs = [_to_goal(reg(old)) for _, reg in c.known["raise:" + ename]]
                    relaxed = (c.known["raise:" + ename][0][0], z3.Or(*regs))
                records.append(("no-unexpected-exception", f"{ename}:{I.py_str(exc)[:80]}", list(ctx.pc), z3.BoolVal(False), relaxed))
    # stub preconditions and nested obligations recorded by the interpreter
    for (name, kind, hyps, goal, meta) in ctx.obligations:
        records.append((kind, name, hyps, goal))
    return ctx, b, path, outcome, records


DYADIC_DEN = 16
DYADIC_MAX = 4096


_SK = [0]


def _ground(hyps, cj):
    """hyps + [not cj] with a universally quantified goal conjunct skolemised (fresh constants for its variables) and every
    single-variable integer-quantified hypothesis additionally instantiated at those constants: the applications of the
    recursive spec functions then occur as ground terms, which is what the explicit unfolding of their definitions works on.
    Every added formula is an instance of a hypothesis; the skolemised negation is equisatisfiable with the negated goal."""
    if not (z3.is_quantifier(cj) and cj.is_forall()):
        return list(hyps) + [z3.Not(cj)]
    consts = []
    for i in range(cj.num_vars()):
        _SK[0] += 1
        consts.append(z3.Const(f"%sk!{_SK[0]}", cj.var_sort(i)))
    body = z3.substitute_vars(cj.body(), *reversed(consts))
    out = list(hyps)
    ints = [c for c in consts if c.sort() == z3.IntSort()]

    def inst(h):
        if z3.is_and(h):
            for ch in h.children():
                inst(ch)
        elif z3.is_quantifier(h) and h.is_forall() and h.num_vars() == 1 and h.var_sort(0) == z3.IntSort():
            for c in ints:
                out.append(z3.substitute_vars(h.body(), c))
    for h in hyps:
        inst(h)
    return out + [z3.Not(body)]


MBQI_FIRST = [False]      # set per task from the contract (`mbqi_first = True` on the holder)


def _goal_conjuncts(g):
    if z3.is_and(g):
        out = []
        for ch in g.children():
            out += _goal_conjuncts(ch)
        return out
    return [g]


def solve(hyps, goal, timeout_ms=20000, dyadic_syms=None, seed=0, allow_split=True):
    """returns ('proved'|'refuted'|'unknown', model or None, seconds, reason).  Budget: about 2.5 x timeout_ms in the worst case
    (twins: half, whole goal: one, conjunct-wise fallback: one, shared between the conjuncts)"""
    t0 = time.time()
    from . import induct
    if MBQI_FIRST[0] and not (induct.SPEC and induct.mentions_spec(list(hyps) + [goal])):
        # contracts whose obligations are quantified over all bins with neighbour facts (B[i-1] vs B[i]): z3's E-matching runs
        # into matching loops on those, model-based instantiation alone decides them in milliseconds -- try that first
        ok = True
        for cj in _goal_conjuncts(goal):
            s = z3.Solver()
            s.set("timeout", max(3000, timeout_ms // 4))
            s.set("random_seed", seed)
            s.set("smt.ematching", False)
            s.add(*hyps)
            s.add(z3.Not(cj))
            if s.check() != z3.unsat:
                ok = False
                break
        if ok:
            return "proved", None, time.time() - t0, "mbqi"
    if induct.SPEC and induct.mentions_spec(list(hyps) + [goal]):
        # recursive spec functions: first with uninterpreted twins and explicit instances of the defining equations
        # (stable, milliseconds), one query per conjunct of the goal; z3's own unfolding of the definitions below is the
        # fallback and the source of models
        all_proved = True
        cjs = _goal_conjuncts(goal)
        for cj in cjs:
            terms, axioms = induct.with_unfoldings(_ground(hyps, cj) if MBQI_FIRST[0] else list(hyps) + [z3.Not(cj)])
            s = z3.Solver()
            s.set("timeout", max(5000, timeout_ms // 2))      # per conjunct; the first conjunct that fails ends this attempt
            s.set("random_seed", seed)
            s.add(*terms)
            s.add(*axioms)
            if s.check() != z3.unsat:
                ok = False
                if True:
                    # second strategy for the same (sound) query: model-based instantiation only, no E-matching -- an `unsat`
                    # is a proof whichever strategy finds it; makes the verdict robust against E-matching running away
                    s = z3.Solver()
                    s.set("timeout", max(5000, timeout_ms // 2) if MBQI_FIRST[0] else min(10000, max(5000, timeout_ms // 2)))
                    s.set("random_seed", seed)
                    s.set("smt.ematching", False)
                    s.add(*terms)
                    s.add(*axioms)
                    ok = s.check() == z3.unsat
                if not ok:
                    all_proved = False
                    break
        if all_proved:
            return "proved", None, time.time() - t0, ""
    s = z3.Solver()
    s.set("timeout", timeout_ms)
    s.set("random_seed", seed)
    for h in hyps:
        s.add(h)
    s.add(z3.Not(goal))
    r = s.check()
    if r == z3.unsat:
        return "proved", None, time.time() - t0, ""
    if r == z3.sat:
        return "refuted", s.model(), time.time() - t0, ""
    reason = s.reason_unknown()
    # undecided as a whole: a conjunction is proved when each conjunct is (smaller nonlinear queries are far more stable)
    parts = _goal_conjuncts(goal)
    if len(parts) > 1 and allow_split:
        per = max(2000, timeout_ms // len(parts))
        for cj in parts:
            s2 = z3.Solver()
            s2.set("timeout", per)
            s2.set("random_seed", seed)
            for h in hyps:
                s2.add(h)
            s2.add(z3.Not(cj))
            r2 = s2.check()
            if r2 == z3.sat:
                return "refuted", s2.model(), time.time() - t0, ""
            if r2 != z3.unsat:
                return "unknown", None, time.time() - t0, s2.reason_unknown()
        return "proved", None, time.time() - t0, "conjunct-wise"
    return "unknown", None, time.time() - t0, reason


def dyadic_model(hyps, goal, symbols, timeout_ms=10000):
    """an exactly representable counter-model (reals = k/16, |k| <= 4096), if there is one"""
    s2 = z3.Solver()
    s2.set("timeout", timeout_ms)
    for h in hyps:
        s2.add(h)
    s2.add(z3.Not(goal))
    for name, (sort, t) in symbols.items():
        if sort == "real":
            k = z3.Int(name + "$k")
            s2.add(t * DYADIC_DEN == z3.ToReal(k), k >= -DYADIC_MAX, k <= DYADIC_MAX)
        elif sort == "int":
            s2.add(t >= -DYADIC_MAX, t <= DYADIC_MAX)
        elif sort == "array":
            return None
    if s2.check() == z3.sat:
        return s2.model()
    return None


def model_values(model, symbols):
    out = {}
    for name, (sort, t) in symbols.items():
        if sort == "array":
            continue
        v = model.eval(t, model_completion=True)
        if sort == "real":
            if z3.is_rational_value(v):
                out[name] = fractions.Fraction(v.numerator_as_long(), v.denominator_as_long())
            elif z3.is_algebraic_value(v):
                out[name] = fractions.Fraction(v.approx(20).numerator_as_long(), v.approx(20).denominator_as_long())
            else:
                out[name] = fractions.Fraction(0)
        elif sort == "int":
            out[name] = v.as_long() if z3.is_int_value(v) else 0
        else:
            out[name] = z3.is_true(v)
    # arrays of symbolic extent: evaluate the extents, then every element (extents capped at 6 for the replay)
    import itertools
    for name, (sort, t) in symbols.items():
        if sort != "array":
            continue
        arr, extents, dt = t
        ext = []
        for e in extents:
            ev = model.eval(term_of(raw(e), "int"), model_completion=True) if not isinstance(e, int) else None
            ext.append(e if isinstance(e, int) else (ev.as_long() if z3.is_int_value(ev) else 0))
        if any(x > 6 or x < 0 for x in ext):
            out[name] = None
            continue
        def rec(prefix, dims):
            if not dims:
                v = model.eval(z3.Select(arr, *[z3.IntVal(i) for i in prefix]), model_completion=True)
                if z3.is_rational_value(v):
                    return float(fractions.Fraction(v.numerator_as_long(), v.denominator_as_long()))
                if z3.is_int_value(v):
                    return v.as_long()
                return z3.is_true(v)
            return [rec(prefix + [i], dims[1:]) for i in range(dims[0])]
        out[name] = rec([], ext)
    return out


def replay_concrete(c, cfg, model, use_known=False):
    """Run the *real* function on the inputs of `model` and evaluate every clause concretely.
    Returns dict(failed=[clause names], outcome=..., inexact=[...]); with use_known, failures inside a known
    region of the contract are reported under `known` instead."""
    b = ConcB(cfg, model)
    try:
        inp = c.inputs(b)
    except PreconditionFalse:
        return {"failed": [], "known": [], "outcome": "precondition-false", "inexact": b.inexact}
    a = NS(inp)
    old = NS(_safe_deepcopy(inp))
    for k, v in cfg.items():
        setattr(a, "_cfg_" + k, v)
        setattr(old, "_cfg_" + k, v)
    failed = []
    detail = {}
    import warnings
    with warnings.catch_warnings():
        warnings.simplefilter("ignore")
        try:
            with np.errstate(all="ignore"):
                result = call_real(c, a, cfg)
            outcome = ("return", result)
        except Exception as e:   # noqa
            outcome = ("raise", e)
        if outcome[0] == "return":
            for name, f in c.ensures:
                try:
                    ok = bool(f(a, old, outcome[1]))
                except Exception as e:
                    ok = False
                    detail[name] = f"clause raised {type(e).__name__}: {e}"
                if not ok:
                    failed.append(("ensures", name))
            for et, name, when, state in c.raises:
                if bool(when(old)):
                    failed.append(("raises-complete", name))
        else:
            e = outcome[1]
            matched = False
            for et, name, when, state in c.raises:
                if isinstance(et, str):
                    et = real_object(et)
                if isinstance(e, et):
                    matched = True
                    if not bool(when(old)):
                        failed.append(("raises-sound", name))
                    if state is not None:
                        try:
                            ok = bool(state(a, old))
                        except Exception as e2:
                            ok = False
                            detail[name] = f"state clause raised {type(e2).__name__}: {e2}"
                        if not ok:
                            failed.append(("raises-state", name))
                    break
            if not matched and not (c.allow_raise and isinstance(e, tuple(c.allow_raise))):
                failed.append(("no-unexpected-exception", f"{type(e).__name__}:{str(e)[:80]}"))
    known_hits = []
    if use_known and failed and c.known:
        keep = []
        for kind, name in failed:
            key = name if kind == "ensures" else ("raise:" + name.split(":")[0] if kind == "no-unexpected-exception" else
                                                  ("raise:" + type(outcome[1]).__name__ if kind == "raises-sound" and outcome[0] == "raise" else kind + ":" + name))
            hit = None
            for fid, reg in c.known.get(key, []):
                try:
                    if bool(reg(old)):
                        hit = fid
                        break
                except Exception:
                    pass
            if hit:
                known_hits.append(hit)
            else:
                keep.append((kind, name))
        failed = keep
    return {"failed": failed, "known": known_hits, "outcome": (outcome[0], _describe(outcome[1])), "inexact": b.inexact, "detail": detail}


def _safe_deepcopy(inp):
    try:
        return copy.deepcopy(inp)
    except Exception:
        out = {}
        for k, v in inp.items():
            try:
                out[k] = copy.deepcopy(v)
            except Exception:
                out[k] = v          # singletons (the config object): the clause reads its value through obs
        return out


def _describe(v):
    try:
        s = repr(v)
    except Exception:
        s = f"<{type(v).__name__}>"
    return s[:300]


def jsonable_model(m):
    out = {}
    for k, v in m.items():
        if isinstance(v, list) or v is None:
            out[k] = {"array": v}
            continue
        if isinstance(v, fractions.Fraction):
            out[k] = str(v) if v.denominator != 1 else int(v)
        else:
            out[k] = v
    return out


def model_from_json(m):
    out = {}
    for k, v in m.items():
        if isinstance(v, dict) and "array" in v:
            out[k] = v["array"]
            continue
        if isinstance(v, str):
            out[k] = fractions.Fraction(v)
        elif isinstance(v, bool):
            out[k] = v
        else:
            out[k] = fractions.Fraction(v) if not isinstance(v, bool) else v
    return out


def sample_models(I, c, cfg, n, seed, decimal=False):
    """n models of the contract's requires (the path condition after building the inputs), spread by pinning random
    subsets of the symbols to random small dyadic values."""
    import random
    rnd = random.Random(seed * 7919 + hash(cfg_id(cfg)) % 100003)
    I.ctx = Ctx([])
    I.extent_cap = c.extent_cap
    I.reset_state()
    b = SymB(I, cfg)
    try:
        c.inputs(b)
    except Exception:
        return [], b
    base = list(I.ctx.pc)
    models = []
    syms = list(b.symbols.items())
    for k in range(n):
        s = z3.Solver()
        s.set("timeout", 3000)
        for h in base:
            s.add(h)
        pins = []
        for name, (sort, t) in syms:
            if sort == "array":
                arr, extents, dt = t
                for e in extents:
                    if not isinstance(e, int):
                        s.add(term_of(raw(e), "int") <= 4)
                continue
            if sort == "real":
                kk = z3.Int(name + "$k")
                if decimal:
                    # decimal literals (k/10, k/100): NOT exactly representable in binary64 -- rounding cases of the real code
                    den = rnd.choice((10, 10, 100, 1000))
                    s.add(t * den == z3.ToReal(kk), kk >= -20 * den, kk <= 20 * den)
                    if rnd.random() < 0.7:
                        pins.append(t == z3.RealVal(rnd.randint(-50, 50)) / 10)
                    continue
                s.add(t * 8 == z3.ToReal(kk), kk >= -64, kk <= 64)
                if rnd.random() < 0.6:
                    pins.append(t == z3.RealVal(rnd.randint(-16, 16)) / 4)
            elif sort == "int":
                s.add(t >= -6, t <= 6)
                if rnd.random() < 0.6:
                    pins.append(t == rnd.randint(-3, 4))
            else:
                if rnd.random() < 0.6:
                    pins.append(t == bool(rnd.getrandbits(1)))
        rnd.shuffle(pins)
        while True:
            r = s.check(*pins)
            if r == z3.sat:
                models.append(model_values(s.model(), b.symbols))
                break
            if not pins:
                break
            core = s.unsat_core() if r == z3.unsat else []
            drop = [p for p in pins if any(z3.eq(p, q) for q in core)] or pins[: max(1, len(pins) // 2)]
            pins = [p for p in pins if not any(z3.eq(p, q) for q in drop)]
    return models, b


def cross_check(I, c, cfg, n, seed, res, decimal=False):
    """CPython cross-check / bounded stand-in: run the REAL function on sampled concrete inputs and evaluate every
    clause of the contract concretely.  Never counted as proved.  decimal=True samples decimal literals (inexact in
    binary64) for contracts whose clauses are exact comparisons also on machine floats (fp_exact = True)."""
    models, b = sample_models(I, c, cfg, n, seed, decimal)
    ran = failed = 0
    for mv in models:
        try:
            rp = replay_concrete(c, cfg, mv, use_known=True)
        except Exception as e:
            res.sample_errors.append(f"{type(e).__name__}: {e}")
            continue
        if rp["outcome"] == "precondition-false":
            continue
        ran += 1
        if rp["failed"]:
            failed += 1
            kind, name = rp["failed"][0]
            res.obligations.append({"name": f"{c.name}#sample{'-decimal' if decimal else ''}:{name}@{cfg_id(cfg)}/real-code", "kind": "sample", "clause": name,
                                    "config": cfg_id(cfg), "path": "real-code", "status": "refuted", "ms": 0, "hyps": 0, "mode": "concrete",
                                    "bounded": True, "model": jsonable_model(mv), "replayed": True,
                                    "replay": {"failed": [list(x) for x in rp["failed"]], "outcome": rp["outcome"], "inexact": [], "detail": rp.get("detail", {})}})
            if failed >= 2:
                break
    res.samples_run += ran
    res.samples_failed += failed


def _failed(res):
    return sum(1 for o in res.obligations if o["status"] != "proved" and not o["status"].startswith("known:"))


def verify(cname, cfg, timeout_ms=20000, seed=0, repo_src=None, samples=0):
    """Verify contract `cname` under configuration `cfg`.  Returns Result (JSON-able)."""
    c = REGISTRY[cname]
    MBQI_FIRST[0] = bool(c.holder.__dict__.get("mbqi_first", False))
    res = Result()
    I = Interp(repo_src)
    try:
        I.find(c.key)
    except Exception as e:
        res.errors.append(f"cannot bind {c.key}: {type(e).__name__}: {e}")
        return res
    work = [[]]
    seen_obl = {}
    cid = cfg_id(cfg)
    while work:
        dec = work.pop()
        if sum(1 for o in res.obligations if o.get("replayed")) >= 3:
            break
        if _failed(res) >= 2:
            break       # this configuration already fails: further paths would only add time (nothing is reported as held)
        if res.paths >= c.max_paths:
            res.errors.append(f"path budget {c.max_paths} exhausted")
            break
        try:
            ctx, b, path, outcome, records = run_path(I, c, cfg, dec)
        except PathInfeasible:
            work.extend(I.ctx.pending)
            continue
        except Untranslatable as u:
            res.executed |= I.executed
            res.untranslatable.append({"config": cid, "path": "".join("T" if d else "F" for d in I.ctx.trace), "what": str(u),
                                       "stack": list(I.stack), "trace": traceback.format_exc()[-900:]})
            work.extend(I.ctx.pending)
            I.stack.clear()
            I.call_depth = 0
            continue
        except Raised as r:
            res.errors.append(f"exception while building inputs / evaluating clauses: {I.py_str(r.exc)[:200]}")
            work.extend(I.ctx.pending)
            I.stack.clear()
            I.call_depth = 0
            continue
        work.extend(ctx.pending)
        res.paths += 1
        res.executed |= I.executed
        res.stubs |= I.stub_log
        res.assumed += len(ctx.assumed)
        # cover obligation: the path condition is satisfiable (vacuity guard)
        for rec_ in records:
            if _failed(res) >= 2:
                break
            kind, name, hyps, goal = rec_[:4]
            relaxed = rec_[4] if len(rec_) > 4 else None
            oname = f"{c.name}#{kind}:{name}@{cid}/{path}"
            # a clause with a known-finding region: a short first attempt at the clause itself, then the relaxed clause
            budget = timeout_ms if _failed(res) == 0 else timeout_ms // 2      # a configuration that already fails gets less
            first_ms = budget if relaxed is None else min(budget, 8000)
            status, model, secs, reason = solve(hyps, goal, first_ms, None, seed)
            res.solver_s += secs
            if status != "proved" and relaxed is not None:
                st2, _, secs2, _ = solve(hyps, relaxed[1], timeout_ms, None, seed)
                res.solver_s += secs2
                if st2 == "proved":
                    status = "known:" + relaxed[0]
                elif status == "unknown" and first_ms < timeout_ms:
                    status, model, secs, reason = solve(hyps, goal, timeout_ms, None, seed)
                    res.solver_s += secs
            if status == "unknown" and _failed(res) == 0:
                # the first undecided query of a configuration is retried once with three times the budget and another seed,
                # so that a busy machine does not turn a provable obligation into "undecided"
                st3, m3, secs3, r3 = solve(hyps, goal, timeout_ms * 3, None, seed + 1, allow_split=False)
                res.solver_s += secs3
                if st3 != "unknown":
                    status, model, reason = st3, m3, r3
            if status in ("refuted", "unknown"):
                t1 = time.time()
                dm = dyadic_model(hyps, goal, b.symbols, min(timeout_ms, 10000))
                res.solver_s += time.time() - t1
                if dm is not None:
                    model, status, reason = dm, "refuted", "dyadic model"
            rec = {"name": oname, "kind": kind, "clause": name, "config": cid, "path": path, "status": status,
                   "ms": round(secs * 1000, 1), "hyps": len(hyps), "mode": c.mode, "bounded": c.bounded}
            if status != "proved":
                rec["executed"] = None
                rec["reason"] = reason
                rec["goal"] = str(z3.simplify(goal))[:400]
                if model is not None:
                    mv = model_values(model, b.symbols)
                    rec["model"] = jsonable_model(mv)
                    try:
                        rp = replay_concrete(c, cfg, mv)
                    except Exception as e:
                        rp = {"failed": [], "outcome": f"replay crashed: {type(e).__name__}: {e}", "inexact": [],
                              "trace": traceback.format_exc()[-600:]}
                    rec["replay"] = {"failed": [list(x) for x in rp["failed"]], "outcome": rp["outcome"],
                                     "inexact": rp.get("inexact", []), "detail": rp.get("detail", {})}
                    rec["replayed"] = any(x[1] == name or x[0] == kind for x in rp["failed"]) or bool(rp["failed"])
            res.obligations.append(rec)
    # inductive lemmas the loop hints instantiate: base case and step are obligations of this contract
    for lem in c.holder.__dict__.get("lemmas", ()):
        from . import induct
        for label, status, secs, reason in induct.prove(lem, timeout_ms):
            res.solver_s += secs
            rec = {"name": f"{c.name}#lemma-{label}:{lem.name}@{cid}/-", "kind": "lemma-" + label, "clause": lem.name, "config": cid,
                   "path": "-", "status": status, "ms": round(secs * 1000, 1), "hyps": 0, "mode": c.mode, "bounded": False}
            if status != "proved":
                rec["reason"] = reason or "the induction step does not follow"
                rec["goal"] = lem.name
            elif reason:
                rec["second_backend"] = reason
            res.obligations.append(rec)
    if c.holder.__dict__.get("lemmas"):
        from . import induct
        for lem in induct.false_lemmas():
            outcome = induct.prove(lem, 5000)
            accepted = all(st == "proved" for _, st, _, _ in outcome)
            rec = {"name": f"{c.name}#lemma-selftest:{lem.name}@{cid}/-", "kind": "lemma-selftest", "clause": lem.name, "config": cid,
                   "path": "-", "status": "unknown" if accepted else "proved", "ms": 0, "hyps": 0, "mode": c.mode, "bounded": False}
            if accepted:
                rec["reason"] = "a deliberately wrong lemma was accepted: the lemma prover is vacuous"
                rec["goal"] = lem.name
            res.obligations.append(rec)
    n = samples if not res.untranslatable else max(samples, 40)
    if n:
        try:
            cross_check(I, c, cfg, n, seed, res)
            if c.fp_exact:
                cross_check(I, c, cfg, max(n, 25), seed + 1, res, decimal=True)
        except Exception as e:
            res.sample_errors.append(f"cross-check crashed: {type(e).__name__}: {e}")
    return res
