"""vcheck driver: select the contracts of a property, generate + discharge their obligations from /repo's
current source, replay counterexamples on the real code, write evidence, decide the exit code.

exit 0  property held on everything explored (KNOWN-FINDING lines possible)
exit 1  VIOLATION property=<id> replay=<path>[ no-failing-input-found]
exit 3  checker fault (solver instability on unchanged text, crash, untranslatable pinned code)
"""
from __future__ import annotations

import argparse
import glob
import hashlib
import importlib
import json
import multiprocessing as mp
import os
import sys
import time
import traceback

ROOT = os.path.dirname(os.path.dirname(os.path.abspath(__file__)))
sys.path.insert(0, ROOT)
OUT = os.environ.get("VERIF_OUT", ROOT)      # where evidence/ and replays/ are written (scratch dir for mutant runs)

from pyvc import vc  # noqa: E402


def load_contracts():
    for f in sorted(glob.glob(os.path.join(ROOT, "contracts", "*.py"))):
        name = os.path.basename(f)[:-3]
        if name != "__init__":
            importlib.import_module("contracts." + name)


def _task(args):
    cname, cfg, timeout_ms, seed = args[:4]
    samples = args[4] if len(args) > 4 else 0
    t0 = time.time()
    try:
        r = vc.verify(cname, cfg, timeout_ms=timeout_ms, seed=seed, samples=samples)
        d = r.to_json()
    except Exception as e:   # checker crash -> reported as such, never as a violation
        d = {"obligations": [], "paths": 0, "untranslatable": [], "errors": [f"checker crash: {type(e).__name__}: {e}\n" + traceback.format_exc()[-1500:]],
             "stubs": [], "solver_s": 0.0, "violations": [], "crash": True}
    d["contract"] = cname
    d["config"] = vc.cfg_id(cfg)
    d["cfg"] = cfg
    d["wall_s"] = round(time.time() - t0, 3)
    return d


def load_known():
    p = os.path.join(ROOT, "known_findings.json")
    if not os.path.exists(p):
        return []
    return json.load(open(p))["findings"]


def load_baseline(prop):
    p = os.path.join(ROOT, "baseline", f"{prop}.json")
    if not os.path.exists(p):
        return None
    return json.load(open(p))


def main(argv=None):
    ap = argparse.ArgumentParser()
    ap.add_argument("prop")
    ap.add_argument("--tier", default=os.environ.get("VERIF_TIER", "quick"))
    ap.add_argument("--replay")
    ap.add_argument("--update-baseline", action="store_true")
    ap.add_argument("--only", help="substring filter on contract names (debugging)")
    ap.add_argument("--jobs", type=int, default=int(os.environ.get("VERIF_JOBS", "16")))
    ap.add_argument("-v", action="store_true")
    args = ap.parse_args(argv)
    seed = int(os.environ.get("VERIF_SEED", "0") or 0)
    load_contracts()
    if args.replay:
        return do_replay(args.prop, args.replay)
    t0 = time.time()
    prop = args.prop
    names = [n for n in vc.ORDER if prop in vc.REGISTRY[n].props and (not args.only or args.only in n)]
    if not names:
        print(f"no contracts for {prop}")
        return 3
    timeout_ms = 20000 if args.tier == "quick" else 60000
    from pyvc import induct
    induct.SECOND_BACKEND = args.tier == "thorough"
    tasks = []
    for n in names:
        c = vc.REGISTRY[n]
        for cfg in c.configs_for(args.tier):
            tasks.append((n, cfg, timeout_ms, seed, 3 if args.tier == "quick" else 40))
    if args.jobs > 1 and len(tasks) > 1:
        # watchdog: a task that does not come back (a solver call that ignores its time limit, a worker that died) is reported
        # as a checker fault after a generous wall limit instead of hanging the check for ever
        limit = float(os.environ.get("VERIF_TASK_LIMIT", 1800 if args.tier == "quick" else 5400))
        pool = mp.get_context("fork").Pool(min(args.jobs, len(tasks)))
        try:
            pending = [(t, pool.apply_async(_task, (t,))) for t in tasks]
            results = []
            deadline = time.time() + limit
            for t, ar in pending:
                try:
                    results.append(ar.get(timeout=max(1.0, deadline - time.time())))
                except mp.TimeoutError:
                    results.append({"obligations": [], "paths": 0, "untranslatable": [], "stubs": [], "solver_s": 0.0, "violations": [], "crash": True,
                                    "errors": [f"task did not finish within {int(limit)} s (solver call ignoring its time limit or dead worker)"],
                                    "contract": t[0], "config": vc.cfg_id(t[1]), "cfg": t[1], "wall_s": limit, "executed": []})
        finally:
            pool.terminate()
            pool.join()
    else:
        results = [_task(t) for t in tasks]

    # ---- source binding of every function under contract
    from pyvc.interp import Interp
    I = Interp()
    fucs = {}
    keys = []
    for n in names:
        keys.append(vc.REGISTRY[n].key)
    for r in results:
        keys.extend(r.get("executed", []))
    top = {vc.REGISTRY[n].key for n in names}
    for key in keys:
        if key not in fucs:
            try:
                fucs[key] = vc.source_info(I, key)
                fucs[key]["role"] = "under contract" if key in top else "interpreted in place (callee)"
            except Exception as e:
                fucs[key] = {"key": key, "error": f"{type(e).__name__}: {e}"}
    baseline = load_baseline(prop)
    changed = []
    if baseline:
        for key, info in fucs.items():
            b = baseline["functions"].get(key)
            if b is None or b.get("sha256") != info.get("sha256"):
                changed.append(key)
    source_changed = bool(changed) or baseline is None

    known = load_known()
    known_active = {k["id"]: k for k in known if k["status"] == "known"}

    # ---- classify
    proof_total = proof_ok = 0
    bounded_total = bounded_ok = 0
    violations = []     # (obligation record, result)
    unknowns = []
    known_hits = {}
    faults = []
    untranslatable = []
    for r in results:
        c = vc.REGISTRY[r["contract"]]
        if r.get("crash") or r["errors"]:
            faults.extend((r["contract"], r["config"], e) for e in r["errors"])
        for u in r["untranslatable"]:
            if c.standin:
                if r.get("samples_run", 0) == 0:
                    faults.append((r["contract"], r["config"], "stand-in contract: the cross-check on the real code did not run"))
                continue
            untranslatable.append((r["contract"], r["config"], u))
        for o in r["obligations"]:
            if c.bounded:
                bounded_total += 1
            else:
                proof_total += 1
            st = o["status"]
            if st == "proved":
                if c.bounded:
                    bounded_ok += 1
                else:
                    proof_ok += 1
                continue
            if st.startswith("known:"):
                fid = st.split(":", 1)[1]
                if fid in known_active:
                    known_hits.setdefault(fid, []).append(o)
                    # a known finding is a *failed* obligation that is accounted for: it is excluded from both counts
                    if c.bounded:
                        bounded_total -= 1
                    else:
                        proof_total -= 1
                    continue
                st = "refuted" if o.get("model") else "unknown"
            if st == "refuted":
                violations.append((o, r))
            else:
                unknowns.append((o, r))

    os.makedirs(os.path.join(OUT, "replays", prop), exist_ok=True)
    exit_code = 0
    lines = []
    for fid, obs in sorted(known_hits.items()):
        lines.append(f"KNOWN-FINDING: property={prop} {fid}: {known_active[fid]['what']}")
    # untranslatable code: on a changed tree it is a downgrade (bounded stand-in decides), on the pinned tree a fault
    for o, r in violations:
        h = hashlib.sha256(o["name"].encode()).hexdigest()[:12]
        path = os.path.join("replays", prop, f"{h}.json")
        replayed = bool(o.get("replayed"))
        rec = {"property": prop, "obligation": o["name"], "contract": r["contract"], "cfg": r["cfg"], "clause": o["clause"],
               "kind": o["kind"], "model": o.get("model"), "goal": o.get("goal"), "replay": o.get("replay"),
               "solver": {"status": o["status"], "reason": o.get("reason"), "ms": o["ms"]},
               "replayed_on_real_code": replayed}
        json.dump(rec, open(os.path.join(OUT, path), "w"), indent=1, default=str)
        if replayed:
            lines.append(f"VIOLATION property={prop} replay={path}")
            exit_code = 1
        elif source_changed:
            lines.append(f"VIOLATION property={prop} replay={path} no-failing-input-found")
            exit_code = 1
        else:
            faults.append((r["contract"], r["config"], f"obligation {o['name']} has a model that does not replay on unchanged source"))
    for o, r in unknowns:
        h = hashlib.sha256(o["name"].encode()).hexdigest()[:12]
        path = os.path.join("replays", prop, f"{h}.json")
        if source_changed and baseline is not None:
            rec = {"property": prop, "obligation": o["name"], "contract": r["contract"], "cfg": r["cfg"], "clause": o["clause"],
                   "kind": o["kind"], "model": None, "goal": o.get("goal"),
                   "solver": {"status": o["status"], "reason": o.get("reason"), "ms": o["ms"]}, "replayed_on_real_code": False}
            json.dump(rec, open(os.path.join(OUT, path), "w"), indent=1, default=str)
            lines.append(f"VIOLATION property={prop} replay={path} no-failing-input-found")
            exit_code = 1
        else:
            faults.append((r["contract"], r["config"], f"obligation {o['name']} undecided ({o.get('reason')}) on unchanged source"))
    if untranslatable:
        if source_changed and baseline is not None:
            for cn, cf, u in untranslatable:
                lines.append(f"NOTE: {cn}@{cf} not translatable on this tree ({u['what']}); bounded stand-ins decide")
        else:
            for cn, cf, u in untranslatable:
                faults.append((cn, cf, f"untranslatable: {u['what']} at {u.get('stack')}"))
    # obligation count must not drop on unchanged sources (vacuity guard)
    if baseline and not source_changed and not args.only:
        # vacuity guard: the number of discharged obligations must not collapse (the exact number may vary a little, because
        # infeasible paths are pruned by time-limited solver probes)
        if proof_ok + bounded_ok < 0.8 * baseline.get("proved", 0):
            faults.append(("-", "-", f"obligation count collapsed: {proof_ok + bounded_ok} < 80% of baseline {baseline['proved']}"))
    if proof_total + bounded_total == 0:
        faults.append(("-", "-", "zero obligations generated"))
    # the assumed permutation lemma: checked by Lean in the thorough tier
    external = []
    if args.tier == "thorough" and any(s.startswith("lemma:permutation") for r in results for s in r["stubs"]):
        import subprocess, shutil
        lf = os.path.join(ROOT, "lean", "PermSum.lean")
        t1 = time.time()
        if shutil.which("lean") is None:
            external.append({"file": "lean/PermSum.lean", "checker": "lean", "status": "not run (lean not on PATH)"})
        else:
            try:
                pr = subprocess.run(["lean", lf], capture_output=True, text=True, timeout=1500)
                ok = pr.returncode == 0 and "error" not in pr.stdout and "sorry" not in pr.stdout
                external.append({"file": "lean/PermSum.lean", "checker": "lean 4 + Mathlib", "theorems": ["wsum_eq_sum", "wsum_perm"],
                                 "status": "accepted" if ok else "REJECTED", "seconds": round(time.time() - t1, 1), "output": (pr.stdout + pr.stderr)[-400:]})
                if not ok:
                    faults.append(("lean/PermSum.lean", "-", "the Lean proof of the permutation lemma is not accepted: " + (pr.stdout + pr.stderr)[-300:]))
            except subprocess.TimeoutExpired:
                external.append({"file": "lean/PermSum.lean", "checker": "lean 4 + Mathlib", "status": "timeout"})
    if faults and exit_code == 0:
        exit_code = 3
    wall = time.time() - t0

    # ---- evidence
    samples = []
    for r in results[:]:
        for o in r["obligations"][:1]:
            samples.append({k: o[k] for k in ("name", "kind", "status", "ms", "hyps", "mode") if k in o})
        if len(samples) >= 8:
            break
    by_kind = {}
    for r in results:
        for o in r["obligations"]:
            by_kind[o["kind"]] = by_kind.get(o["kind"], 0) + 1
    stubs = sorted({s for r in results for s in r["stubs"]})
    solver_s = round(sum(r["solver_s"] for r in results), 3)
    only_bounded = proof_total == 0
    ev = {
        "property_id": prop, "tier": args.tier, "seed": seed,
        "level": claimed_level(prop, only_bounded),
        "wall_s": round(wall, 2),
        "violations": sum(1 for l in lines if l.startswith("VIOLATION")),
        "coverage": {
            "obligations": proof_total, "discharged": proof_ok,
            "checker_cmd": f"bin/vcheck {prop} --tier {args.tier}",
            "trusted_base": trusted_base(stubs),
            "explanation": ("Obligations are generated by PyVC from the real AST of /repo/src/physt (re-read on this run) against the "
                            "sidecar contracts in /verif/contracts and discharged by z3 " + __import__("z3").get_version_string() +
                            "; 'obligations'/'discharged' count only unbounded obligations (symbolic scalars and objects, every path); "
                            "'bounded' counts obligations of contracts whose array extents / bin counts are fixed to small concrete sizes "
                            "(contents symbolic) and is never counted as proved."),
            "bounded": {"obligations": bounded_total, "discharged": bounded_ok,
                        "bounds": sorted({vc.REGISTRY[r["contract"]].bound_note for r in results if vc.REGISTRY[r["contract"]].bounded and vc.REGISTRY[r["contract"]].bound_note})},
            "functions_under_contract": list(fucs.values()),
            "contracts": [{"contract": r["contract"], "config": r["config"], "paths": r["paths"], "obligations": len(r["obligations"]),
                           "proved": sum(1 for o in r["obligations"] if o["status"] == "proved"), "solver_s": round(r["solver_s"], 3),
                           "wall_s": r["wall_s"], "bounded": vc.REGISTRY[r["contract"]].bounded} for r in results],
            "obligations_by_kind": by_kind,
            "external_lemmas": external,
            "backend": {"z3": __import__("z3").get_version_string(), "solver_seconds": solver_s,
                        "cvc5_on_lemma_obligations": {k: sum(1 for r in results for o in r["obligations"] if o.get("second_backend") == "cvc5: " + k)
                                                      for k in ("unsat", "unknown", "absent")}},
            "stubs_used": stubs,
            "standin_contracts": sorted({r["contract"] for r in results if vc.REGISTRY[r["contract"]].standin}),
            "known_findings_printed": sorted(known_hits),
            "cross_check": {"what": "the REAL functions run under CPython on inputs sampled from each contract's requires; every clause evaluated concretely "
                                    "(validates interpreter + stubs; stands in for functions that are untranslatable on the current tree; never counted as proved)",
                            "samples_run": sum(r.get("samples_run", 0) for r in results), "samples_failed": sum(r.get("samples_failed", 0) for r in results),
                            "errors": [e for r in results for e in r.get("sample_errors", [])][:5]},
            "changed_functions_vs_baseline": changed if baseline else "no baseline",
            "faults": [list(f) for f in faults][:20],
            "samples": samples,
        },
        "assumptions": assumptions(stubs),
    }
    os.makedirs(os.path.join(OUT, "evidence"), exist_ok=True)
    json.dump(ev, open(os.path.join(OUT, "evidence", f"{prop}.json"), "w"), indent=1, default=str)

    if args.update_baseline:
        if exit_code == 0:
            os.makedirs(os.path.join(ROOT, "baseline"), exist_ok=True)
            json.dump({"property": prop, "functions": fucs, "proved": proof_ok + bounded_ok,
                       "names": sorted(o["name"] for r in results for o in r["obligations"] if o["status"] == "proved")},
                      open(os.path.join(ROOT, "baseline", f"{prop}.json"), "w"), indent=1)
        else:
            print("baseline NOT updated (check does not pass)")
    for l in lines:
        print(l)
    for f in faults[:30]:
        print("FAULT:", *f)
    print(f"{prop}: proof {proof_ok}/{proof_total}, bounded {bounded_ok}/{bounded_total}, known {len(known_hits)}, "
          f"contracts {len(names)}, tasks {len(tasks)}, solver {solver_s}s, wall {wall:.1f}s, exit {exit_code}")
    if args.v:
        for r in results:
            for o in r["obligations"]:
                if o["status"] != "proved":
                    print("  ", o["status"], o["name"], o.get("model"), (o.get("replay") or {}).get("failed"))
    return exit_code


def claimed_level(prop, only_bounded):
    try:
        from props.table import CHECKS
        return CHECKS[prop]["category"]
    except Exception:
        return "proof" if not only_bounded else "other"


def trusted_base(stubs):
    return ["PyVC interpreter + VC generator (/verif/pyvc)", "z3 (sole back end in quick tier)", "CPython 3.12 / numpy as replay platform",
            "stubs (assumed contracts of dependencies): " + ", ".join(stubs)]


def assumptions(stubs):
    extra = []
    if any(s.startswith("lemma:permutation") for s in stubs):
        extra.append("ASSUMED LEMMA (not discharged by z3): a weighted count over (data[p], weights[p]) equals the one over (data, weights) "
                     "for a permutation p -- finite sums are invariant under permutation (stated and proved in /verif/lean/PermSum.lean, "
                     "checked by `lean` in the thorough tier; the transcription between the z3 encoding and the Lean statement is trusted)")
    if any(s in ("np.argsort",) for s in stubs):
        extra.append("np.argsort on arrays of symbolic extent: assumed to return a permutation of 0..n-1 that sorts its argument")
    return extra + ["floats are real numbers (no rounding/overflow) in every clause that adds, multiplies or divides (mode R); comparisons are exact",
            "Python ints are unbounded (stand in for int64 contents)",
            "numpy / builtins / dataclasses / contextvars stubs state the documented behaviour (trusted): " + ", ".join(stubs),
            "partial correctness: termination is not proved",
            "exceptions that no stub declares (MemoryError, ...) are not modelled",
            "loops over arrays of symbolic extent are cut at sidecar invariants (inv-entry / inv-step obligations); inductive lemmas are proved "
            "by an explicit induction scheme (lemma-base / lemma-step obligations): the induction principle over the naturals is trusted"]


def do_replay(prop, path):
    rec = json.load(open(path if os.path.isabs(path) else os.path.join(OUT, path)))
    c = vc.REGISTRY[rec["contract"]]
    if rec.get("model") is None:
        print(f"replay {path}: no failing input was found by the solver; obligation {rec['obligation']}")
        print(json.dumps(rec.get("solver"), indent=1))
        return 1
    def tup(x):
        if isinstance(x, list):
            return tuple(tup(y) for y in x)
        if isinstance(x, dict):
            return {k: tup(v) for k, v in x.items()}
        return x
    rp = vc.replay_concrete(c, tup(rec["cfg"]), vc.model_from_json(rec["model"]))
    print(json.dumps({"obligation": rec["obligation"], "outcome": rp["outcome"], "failed": rp["failed"]}, indent=1, default=str))
    if rp["failed"]:
        print(f"VIOLATION property={prop} replay={path}")
        return 1
    return 0


if __name__ == "__main__":
    sys.exit(main())
