"""PyVC value model: symbolic scalars, arrays, objects.

Scalars are either concrete Python values (int, float incl. nan/inf, bool, str, None) or `Sym`
(a z3 term with a Python-level kind).  Arrays are `Arr` heap objects: a flat element store shared
between views, a position list and a concrete shape (stub semantics "B" of DESIGN.md 2.7); arrays with
symbolic extents are `TArr` (z3 array terms, semantics "S").  Instances of repository classes are `Obj`.

Python semantics assumed by the encoding (listed in every evidence file):
  * ints are unbounded mathematical integers (stand in for int64 contents);
  * finite floats are real numbers: no rounding, no overflow (arithmetic mode R);
  * NaN is tracked by an explicit flag on symbolic floats, +-inf only occur as concrete values.
"""
from __future__ import annotations

import math
import fractions
import itertools
import numpy as _np
import z3


CURRENT = {"interp": None}


class Untranslatable(Exception):
    """A construct outside the supported subset (reported, never silently skipped)."""


class Raised(Exception):
    """An exception raised by the *interpreted* program."""

    def __init__(self, exc):
        super().__init__(repr(exc))
        self.exc = exc


# ----------------------------------------------------------------------------------------------
# symbolic scalars

def real_val(x):
    if isinstance(x, bool):
        return z3.RealVal(1 if x else 0)
    if isinstance(x, int):
        return z3.RealVal(x)
    if isinstance(x, fractions.Fraction):
        return z3.RealVal(str(x))
    # mode R: a float denotes the real number its shortest decimal representation names (0.01 is 1/100, not the
    # neighbouring binary fraction); identical for every dyadic value
    fr = fractions.Fraction(repr(float(x)))
    return z3.RealVal(str(fr))


def is_special_float(v):
    return isinstance(v, float) and (math.isnan(v) or math.isinf(v))


class Sym:
    """Symbolic scalar.  kind: 'int' | 'float' | 'bool'.  np: numpy scalar (True) or Python scalar.
    nan: z3 Bool (float only) or None meaning "known not NaN"."""

    __slots__ = ("t", "kind", "np", "nan")

    def __init__(self, t, kind, np=False, nan=None):
        self.t = t
        self.kind = kind
        self.np = np
        self.nan = nan

    def __repr__(self):
        s = str(self.t)
        if len(s) > 80:
            s = s[:77] + "..."
        return f"<{'np.' if self.np else ''}{self.kind} {s}{' nan?' if self.nan is not None else ''}>"

    def __bool__(self):
        raise TypeError("symbolic value used as a Python bool (use And/Or/Implies in contracts)")

    __hash__ = None

    # -- operators: used by the interpreter *and* directly by contract clauses
    def __add__(self, o): return binop("+", self, o, spec=True)
    def __radd__(self, o): return binop("+", o, self, spec=True)
    def __sub__(self, o): return binop("-", self, o, spec=True)
    def __rsub__(self, o): return binop("-", o, self, spec=True)
    def __mul__(self, o): return binop("*", self, o, spec=True)
    def __rmul__(self, o): return binop("*", o, self, spec=True)
    def __truediv__(self, o): return binop("/", self, o, spec=True)
    def __rtruediv__(self, o): return binop("/", o, self, spec=True)
    def __floordiv__(self, o): return binop("//", self, o, spec=True)
    def __rfloordiv__(self, o): return binop("//", o, self, spec=True)
    def __mod__(self, o): return binop("%", self, o, spec=True)
    def __pow__(self, o): return binop("**", self, o)
    def __neg__(self): return unop("-", self)
    def __abs__(self): return absval(self)
    def __lt__(self, o): return compare("<", self, o)
    def __le__(self, o): return compare("<=", self, o)
    def __gt__(self, o): return compare(">", self, o)
    def __ge__(self, o): return compare(">=", self, o)
    def __eq__(self, o): return compare("==", self, o)
    def __ne__(self, o): return compare("!=", self, o)
    def __and__(self, o): return logic_and(self, o)
    def __rand__(self, o): return logic_and(o, self)
    def __or__(self, o): return logic_or(self, o)
    def __ror__(self, o): return logic_or(o, self)
    def __invert__(self): return logic_not(self)


def is_sym(v):
    return isinstance(v, Sym)


def is_number(v):
    return isinstance(v, (int, float, Sym)) or isinstance(v, (_np.integer, _np.floating, _np.bool_))


def unnp(v):
    """numpy concrete scalar -> python scalar (kept apart only through Sym.np / NpScalar)."""
    if isinstance(v, _np.generic):
        return v.item()
    return v


class NpScalar:
    """A concrete numpy scalar (value is a Python number); distinguishes np.float64(1.0) from 1.0 for
    isinstance / division-by-zero / type() purposes."""

    __slots__ = ("v", "dtype")

    def __init__(self, v, dtype):
        self.v = v
        self.dtype = _np.dtype(dtype)

    def __repr__(self):
        return f"np.{self.dtype}({self.v!r})"

    __hash__ = None

    # contract-side operators (total division)
    def __add__(self, o): return binop("+", self.v, raw(o), spec=True)
    def __radd__(self, o): return binop("+", raw(o), self.v, spec=True)
    def __sub__(self, o): return binop("-", self.v, raw(o), spec=True)
    def __rsub__(self, o): return binop("-", raw(o), self.v, spec=True)
    def __mul__(self, o): return binop("*", self.v, raw(o), spec=True)
    def __rmul__(self, o): return binop("*", raw(o), self.v, spec=True)
    def __truediv__(self, o): return binop("/", self.v, raw(o), spec=True)
    def __rtruediv__(self, o): return binop("/", raw(o), self.v, spec=True)
    def __neg__(self): return unop("-", self.v)
    def __abs__(self): return absval(self.v)
    def __lt__(self, o): return compare("<", self.v, raw(o))
    def __le__(self, o): return compare("<=", self.v, raw(o))
    def __gt__(self, o): return compare(">", self.v, raw(o))
    def __ge__(self, o): return compare(">=", self.v, raw(o))
    def __eq__(self, o): return compare("==", self.v, raw(o))
    def __ne__(self, o): return compare("!=", self.v, raw(o))
    def __bool__(self): return bool(self.v)
    def __float__(self): return float(self.v)
    def __int__(self): return int(self.v)
    def __index__(self): return int(self.v)


def kind_of(v):
    if isinstance(v, Sym):
        return v.kind
    if isinstance(v, NpScalar):
        return kind_of(v.v)
    if isinstance(v, bool):
        return "bool"
    if isinstance(v, int):
        return "int"
    if isinstance(v, float):
        return "float"
    raise Untranslatable(f"not a scalar: {type(v).__name__}")


def is_np_scalar(v):
    return isinstance(v, NpScalar) or (isinstance(v, Sym) and v.np)


def raw(v):
    return v.v if isinstance(v, NpScalar) else v


def term_of(v, want=None):
    """z3 term for scalar v; want in (None,'int','float','bool') coerces numerically."""
    v = raw(v)
    if isinstance(v, Sym):
        t, k = v.t, v.kind
    elif isinstance(v, bool):
        t, k = z3.BoolVal(v), "bool"
    elif isinstance(v, int):
        t, k = z3.IntVal(v), "int"
    elif isinstance(v, float):
        if is_special_float(v):
            raise Untranslatable(f"special float {v} in a symbolic term")
        t, k = real_val(v), "float"
    elif isinstance(v, fractions.Fraction):
        t, k = real_val(v), "float"
    elif z3.is_expr(v):
        if z3.is_bool(v):
            t, k = v, "bool"
        elif z3.is_int(v):
            t, k = v, "int"
        else:
            t, k = v, "float"
    else:
        raise Untranslatable(f"no term for {type(v).__name__}")
    if want is None or want == k:
        return t
    if want == "float":
        if k == "int":
            return z3.ToReal(t)
        if k == "bool":
            return z3.If(t, z3.RealVal(1), z3.RealVal(0))
    if want == "int":
        if k == "bool":
            return z3.If(t, z3.IntVal(1), z3.IntVal(0))
        if k == "float":
            raise Untranslatable("implicit float->int")
    if want == "bool":
        if k == "int":
            return t != 0
        if k == "float":
            return t != 0
    raise Untranslatable(f"coerce {k}->{want}")


def nan_of(v):
    v = raw(v)
    if isinstance(v, Sym):
        return v.nan
    return None


def simp(t):
    return z3.simplify(t)


def concretize(s):
    """Sym whose term is a literal -> Python value."""
    if not isinstance(s, Sym):
        return s
    t = z3.simplify(s.t)
    if s.nan is not None:
        n = z3.simplify(s.nan)
        if z3.is_true(n):
            return NpScalar(float("nan"), _np.float64) if s.np else float("nan")
        if not z3.is_false(n):
            return Sym(t, s.kind, s.np, n)
    out = None
    if s.kind == "bool":
        if z3.is_true(t):
            out = True
        elif z3.is_false(t):
            out = False
    elif s.kind == "int":
        if z3.is_int_value(t):
            out = t.as_long()
    else:
        if z3.is_rational_value(t):
            fr = fractions.Fraction(t.numerator_as_long(), t.denominator_as_long())
            fl = float(fr)
            if fractions.Fraction(fl) == fr:
                out = fl
    if out is None:
        return Sym(t, s.kind, s.np, None)
    if s.np:
        return NpScalar(out, {"bool": _np.bool_, "int": _np.int64, "float": _np.float64}[s.kind])
    return out


def mk(t, kind, np=False, nan=None):
    return concretize(Sym(t, kind, np, nan))


def _nan_or(*flags):
    fl = [f for f in flags if f is not None]
    if not fl:
        return None
    if len(fl) == 1:
        return fl[0]
    return z3.Or(*fl)


def py_floordiv_term(a, b):
    # z3 div/mod are Euclidean: for b>0 floor; Python floors for every sign of b
    return z3.If(b > 0, a / b, (-a) / (-b))


def py_mod_term(a, b):
    return a - b * py_floordiv_term(a, b)


_POW = {}


def pow_fn():
    if "pow" not in _POW:
        _POW["pow"] = z3.Function("pow", z3.RealSort(), z3.RealSort(), z3.RealSort())
    return _POW["pow"]


def ufun(name, arity=1):
    key = (name, arity)
    if key not in _POW:
        _POW[key] = z3.Function(name, *([z3.RealSort()] * (arity + 1)))
    return _POW[key]


class ZeroDiv(Exception):
    """Internal: division whose divisor may be zero; the interpreter turns it into a branch."""

    def __init__(self, cond):
        self.cond = cond


def binop(op, a, b, spec=False):
    """Arithmetic on scalars (concrete or Sym).  spec=True: contract context, division is total
    (the divisor is assumed non-zero by the contract author)."""
    npres = is_np_scalar(a) or is_np_scalar(b)
    a0, b0 = raw(a), raw(b)
    if not isinstance(a0, Sym) and not isinstance(b0, Sym):
        return concrete_binop(op, a0, b0, npres)
    # special floats with symbols
    for x, y in ((a0, b0), (b0, a0)):
        if isinstance(x, float) and math.isnan(x):
            return NpScalar(x, _np.float64) if npres else x
    for x, y, left in ((a0, b0, True), (b0, a0, False)):
        if isinstance(x, float) and math.isinf(x):
            if op == "+":
                return _w(x, npres)
            if op == "-":
                return _w(x if left else -x, npres)
            if spec:
                return float("nan")     # contract context: poison value, every comparison with it is false
            raise Untranslatable(f"inf {op} symbolic")
    ka, kb = kind_of(a0), kind_of(b0)
    nan = _nan_or(nan_of(a0), nan_of(b0))
    if op in ("+", "-", "*"):
        k = "float" if "float" in (ka, kb) else "int"
        ta, tb = term_of(a0, k), term_of(b0, k)
        t = {"+": ta + tb, "-": ta - tb, "*": ta * tb}[op]
        return mk(simp(t), k, npres, nan)
    if op == "/":
        ta, tb = term_of(a0, "float"), term_of(b0, "float")
        if not spec:
            z = z3.simplify(tb == 0)
            if not z3.is_false(z):
                raise ZeroDiv(tb == 0)
        return mk(simp(ta / tb), "float", npres, nan)
    if op in ("//", "%"):
        if ka == "float" or kb == "float":
            ta, tb = term_of(a0, "float"), term_of(b0, "float")
            if not spec and not z3.is_false(z3.simplify(tb == 0)):
                raise ZeroDiv(tb == 0)
            q = z3.ToReal(z3.ToInt(ta / tb))  # floor
            t = q if op == "//" else ta - tb * q
            return mk(simp(t), "float", npres, nan)
        ta, tb = term_of(a0, "int"), term_of(b0, "int")
        if not spec and not z3.is_false(z3.simplify(tb == 0)):
            raise ZeroDiv(tb == 0)
        if z3.is_int_value(z3.simplify(tb)) and z3.simplify(tb).as_long() > 0:
            t = ta / tb if op == "//" else ta % tb
        else:
            t = py_floordiv_term(ta, tb) if op == "//" else py_mod_term(ta, tb)
        return mk(simp(t), "int", npres)
    if op == "**":
        if isinstance(b0, int) and not isinstance(b0, bool) and 0 <= b0 <= 4:
            k = ka if ka != "bool" else "int"
            ta = term_of(a0, k)
            t = z3.RealVal(1) if k == "float" else z3.IntVal(1)
            for _ in range(b0):
                t = t * ta
            return mk(simp(t), k, npres, nan)
        if isinstance(b0, float) and b0 == int(b0) and 0 <= b0 <= 4:
            ta = term_of(a0, "float")
            t = z3.RealVal(1)
            for _ in range(int(b0)):
                t = t * ta
            return mk(simp(t), "float", npres, nan)
        ta, tb = term_of(a0, "float"), term_of(b0, "float")
        t = pow_fn()(ta, tb)
        if isinstance(a0, (int, float)) and not isinstance(a0, bool) and a0 > 0:
            # axiom of the uninterpreted power: a positive (concrete) base to any real power is positive
            I = CURRENT.get("interp")
            if I is not None and getattr(I, "ctx", None) is not None:
                I.ctx.assume(t > 0, "axiom pow: positive base")
        return mk(t, "float", npres, nan)
    raise Untranslatable(f"binop {op}")


def _w(x, npres):
    return NpScalar(x, _np.float64) if npres else x


def concrete_binop(op, a, b, npres):
    import operator
    f = {"+": operator.add, "-": operator.sub, "*": operator.mul, "/": operator.truediv,
         "//": operator.floordiv, "%": operator.mod, "**": operator.pow}[op]
    if npres:
        with _np.errstate(all="ignore"):
            ta = _np.float64(a) if isinstance(a, float) else (_np.int64(a) if not isinstance(a, bool) else _np.bool_(a))
            tb = _np.float64(b) if isinstance(b, float) else (_np.int64(b) if not isinstance(b, bool) else _np.bool_(b))
            try:
                r = f(ta, tb)
            except ZeroDivisionError as e:  # numpy ints // 0 warn and give 0
                raise Raised(e)
        if isinstance(r, _np.generic):
            return NpScalar(r.item(), r.dtype)
        return r
    try:
        return f(a, b)
    except (ZeroDivisionError, OverflowError, TypeError, ValueError) as e:
        raise Raised(e)


def unop(op, a):
    a0 = raw(a)
    npres = is_np_scalar(a)
    if not isinstance(a0, Sym):
        if op == "-":
            r = -a0
        elif op == "+":
            r = +a0
        elif op == "not":
            return not a0
        elif op == "~":
            r = (not a0) if isinstance(a0, bool) else ~a0
        return _wrap_like(r, a)
    if op == "-":
        k = a0.kind if a0.kind != "bool" else "int"
        return mk(simp(-term_of(a0, k)), k, npres, a0.nan)
    if op == "+":
        return a
    if op in ("not", "~"):
        if a0.kind == "bool":
            return mk(simp(z3.Not(a0.t)), "bool", npres)
        if op == "not":
            return mk(simp(term_of(a0) == 0), "bool")
    raise Untranslatable(f"unop {op} on {a0.kind}")


def _wrap_like(r, a):
    if isinstance(a, NpScalar):
        return NpScalar(r, a.dtype if not isinstance(r, bool) or a.dtype == _np.bool_ else _np.bool_)
    return r


def absval(a):
    a0 = raw(a)
    if not isinstance(a0, Sym):
        return _wrap_like(abs(a0), a)
    k = a0.kind if a0.kind != "bool" else "int"
    t = term_of(a0, k)
    return mk(simp(z3.If(t >= 0, t, -t)), k, is_np_scalar(a), a0.nan)


def compare(op, a, b):
    """Comparison; result Python bool or Sym bool.  NaN compares false (true for !=)."""
    npres = is_np_scalar(a) or is_np_scalar(b)
    a0, b0 = raw(a), raw(b)
    if not isinstance(a0, Sym) and not isinstance(b0, Sym):
        import operator
        f = {"<": operator.lt, "<=": operator.le, ">": operator.gt, ">=": operator.ge,
             "==": operator.eq, "!=": operator.ne}[op]
        try:
            return f(a0, b0)
        except TypeError as e:
            raise Raised(e)
    if not _numeric(a0) or not _numeric(b0):
        if op == "==":
            return False
        if op == "!=":
            return True
        raise Raised(TypeError(f"'{op}' not supported between symbolic number and {type(b0).__name__}"))
    # special floats
    for x, y, left in ((a0, b0, True), (b0, a0, False)):
        if isinstance(x, float) and math.isnan(x):
            return op == "!="
        if isinstance(x, float) and math.isinf(x):
            n = nan_of(y)
            pos = x > 0
            # left: inf op y ; else y op inf
            if op in ("==",):
                return False
            if op == "!=":
                return True
            truth = {"<": (not pos) if left else pos, "<=": (not pos) if left else pos,
                     ">": pos if left else (not pos), ">=": pos if left else (not pos)}[op]
            if n is None:
                return truth
            return mk(simp(z3.Not(n)), "bool") if truth else False
    ka, kb = kind_of(a0), kind_of(b0)
    if ka == "bool" and kb == "bool" and op in ("==", "!="):
        ta, tb = term_of(a0), term_of(b0)
        t = (ta == tb) if op == "==" else (ta != tb)
        return mk(simp(t), "bool", npres)
    k = "float" if "float" in (ka, kb) else "int"
    ta, tb = term_of(a0, k), term_of(b0, k)
    t = {"<": ta < tb, "<=": ta <= tb, ">": ta > tb, ">=": ta >= tb, "==": ta == tb, "!=": ta != tb}[op]
    nan = _nan_or(nan_of(a0), nan_of(b0))
    if nan is not None:
        t = z3.Or(nan, t) if op == "!=" else z3.And(z3.Not(nan), t)
    return mk(simp(t), "bool", npres)


def _numeric(v):
    return isinstance(v, (int, float, Sym, fractions.Fraction))


def to_bool_term(v):
    v = raw(v)
    if isinstance(v, Sym):
        return term_of(v, "bool")
    if z3.is_expr(v):
        return v
    return z3.BoolVal(bool(v))


def logic_and(a, b):
    a0, b0 = raw(a), raw(b)
    if isinstance(a0, bool) and isinstance(b0, bool):
        return a0 and b0
    if kind_of(a0) == "bool" and kind_of(b0) == "bool":
        return mk(simp(z3.And(to_bool_term(a0), to_bool_term(b0))), "bool", is_np_scalar(a) or is_np_scalar(b))
    raise Untranslatable("bitwise & on non-bool symbols")


def logic_or(a, b):
    a0, b0 = raw(a), raw(b)
    if isinstance(a0, bool) and isinstance(b0, bool):
        return a0 or b0
    if kind_of(a0) == "bool" and kind_of(b0) == "bool":
        return mk(simp(z3.Or(to_bool_term(a0), to_bool_term(b0))), "bool", is_np_scalar(a) or is_np_scalar(b))
    raise Untranslatable("bitwise | on non-bool symbols")


def logic_not(a):
    a0 = raw(a)
    if isinstance(a0, bool):
        return not a0
    return mk(simp(z3.Not(to_bool_term(a0))), "bool", is_np_scalar(a))


def ite(c, a, b):
    """If-then-else on scalars (c: bool value)."""
    c0 = raw(c)
    if isinstance(c0, bool):
        return a if c0 else b
    a0, b0 = raw(a), raw(b)
    ka, kb = kind_of(a0), kind_of(b0)
    if is_special_float(a0) or is_special_float(b0):
        raise Untranslatable("ite with special float arm")
    k = "float" if "float" in (ka, kb) else ("bool" if ka == kb == "bool" else "int")
    nan = None
    na, nb = nan_of(a0), nan_of(b0)
    if na is not None or nb is not None:
        nan = z3.If(c0.t, na if na is not None else z3.BoolVal(False), nb if nb is not None else z3.BoolVal(False))
    return mk(simp(z3.If(c0.t, term_of(a0, k), term_of(b0, k))), k, is_np_scalar(a) or is_np_scalar(b), nan)


# ----------------------------------------------------------------------------------------------
# contract-level logic helpers (work on Python bools, Sym bools and z3 Bools alike)

def _bt(x):
    x = raw(x)
    if isinstance(x, Sym):
        return term_of(x, "bool")
    if z3.is_expr(x):
        return x
    if isinstance(x, _np.bool_):
        return z3.BoolVal(bool(x))
    if isinstance(x, (bool, int)):
        return z3.BoolVal(bool(x))
    raise TypeError(f"not a truth value: {x!r}")


def _all_concrete(xs):
    return all(isinstance(raw(x), (bool, int, _np.bool_)) and not isinstance(raw(x), Sym) for x in xs)


def And(*xs):
    xs = _flat(xs)
    if _all_concrete(xs):
        return all(bool(raw(x)) for x in xs)
    return mk(simp(z3.And(*[_bt(x) for x in xs])), "bool")


def Or(*xs):
    xs = _flat(xs)
    if _all_concrete(xs):
        return any(bool(raw(x)) for x in xs)
    return mk(simp(z3.Or(*[_bt(x) for x in xs])), "bool")


def Not(x):
    if _all_concrete([x]):
        return not bool(raw(x))
    return mk(simp(z3.Not(_bt(x))), "bool")


def Implies(a, b):
    """b may be a zero-argument callable: it is then evaluated only if a is not concretely false (guards index errors when a
    clause is evaluated eagerly on concrete values)."""
    if callable(b) and not isinstance(b, (Sym, NpScalar)):
        if _all_concrete([a]) and not bool(raw(a)):
            return True
        b = b()
    if _all_concrete([a]):
        return b if bool(raw(a)) else True
    if _all_concrete([b]) and bool(raw(b)):
        return True
    return mk(simp(z3.Implies(_bt(a), _bt(b))), "bool")


def Iff(a, b):
    if _all_concrete([a, b]):
        return bool(raw(a)) == bool(raw(b))
    return mk(simp(_bt(a) == _bt(b)), "bool")


def If(c, a, b):
    """a / b may be callables: with a concrete condition only the chosen one is evaluated (guarded indexing in clauses)"""
    cr = raw(c)
    if isinstance(cr, (bool, _np.bool_)):
        x = a if cr else b
        return x() if callable(x) else x
    return ite(c, a() if callable(a) else a, b() if callable(b) else b)


def _flat(xs):
    out = []
    for x in xs:
        if isinstance(x, (list, tuple)):
            out.extend(_flat(x))
        else:
            out.append(x)
    return out


# ----------------------------------------------------------------------------------------------
# arrays with concrete extents (stub semantics B)

class Arr:
    """numpy.ndarray model with concrete shape.  `store` is the flat element list of the *base*
    buffer (shared by views); `pos[i]` is the store position of the i-th element in row-major order."""

    __slots__ = ("store", "pos", "shape", "dtype", "writeable")

    def __init__(self, store, pos, shape, dtype):
        self.store = store
        self.pos = pos
        self.shape = tuple(shape)
        self.dtype = _np.dtype(dtype)
        self.writeable = True

    @staticmethod
    def from_list(elems, shape, dtype):
        elems = list(elems)
        n = 1
        for s in shape:
            n *= s
        assert n == len(elems), (shape, len(elems))
        return Arr(elems, list(range(len(elems))), shape, dtype)

    @property
    def ndim(self):
        return len(self.shape)

    @property
    def size(self):
        n = 1
        for s in self.shape:
            n *= s
        return n

    def elems(self):
        st = self.store
        return [st[p] for p in self.pos]

    def copy(self):
        return Arr.from_list(self.elems(), self.shape, self.dtype)

    def same_buffer(self, other):
        return isinstance(other, Arr) and self.store is other.store

    def flat_index(self, idx):
        k = 0
        for i, s in zip(idx, self.shape):
            k = k * s + i
        return k

    def get(self, idx):
        return self.store[self.pos[self.flat_index(idx)]]

    def set(self, idx, v):
        self.store[self.pos[self.flat_index(idx)]] = v

    def __repr__(self):
        return f"Arr(shape={self.shape}, dtype={self.dtype}, {self.elems()!r})"

    def __getitem__(self, idx):
        """contract-side read access: raw element value(s) (Python number or Sym) / sub-array"""
        r = CURRENT["interp"].np.getitem(self, idx)
        if isinstance(r, NpScalar):
            return r.v
        if isinstance(r, Sym):
            return Sym(r.t, r.kind, False, r.nan)
        return r

    def __len__(self):
        return self.shape[0]

    @property
    def T(self):
        return CURRENT["interp"].np.transpose(self)

    def nested(self):
        """nested Python lists (tolist-like, elements unchanged)."""
        def rec(off, dims):
            if not dims:
                return self.store[self.pos[off]]
            step = 1
            for d in dims[1:]:
                step *= d
            return [rec(off + i * step, dims[1:]) for i in range(dims[0])]
        return rec(0, list(self.shape))


def dtype_kind_of_value(v):
    v0 = raw(v)
    return kind_of(v0)


DT_OF_KIND = {"bool": _np.dtype(bool), "int": _np.dtype(_np.int64), "float": _np.dtype(_np.float64)}


def cast_elem(v, dtype, unsafe=True):
    """Value stored into an array of `dtype` (numpy's assignment cast)."""
    dtype = _np.dtype(dtype)
    v0 = raw(v)
    k = kind_of(v0)
    if dtype.kind == "f":
        if isinstance(v0, Sym):
            return Sym(term_of(v0, "float"), "float", True, v0.nan) if k != "float" else Sym(v0.t, "float", True, v0.nan)
        return float(v0)
    if dtype.kind in "iu":
        if isinstance(v0, Sym):
            if k == "float":
                if v0.nan is not None:
                    raise Untranslatable("possibly-NaN float stored into integer array")
                return mk(simp(trunc_term(v0.t)), "int", True)
            return Sym(term_of(v0, "int"), "int", True)
        if isinstance(v0, float):
            if math.isnan(v0) or math.isinf(v0):
                raise Raised(ValueError("cannot convert float NaN to integer" if math.isnan(v0)
                                        else "cannot convert float infinity to integer"))
            return int(v0)
        return int(v0)
    if dtype.kind == "b":
        if isinstance(v0, Sym):
            return Sym(term_of(v0, "bool"), "bool", True)
        return bool(v0)
    if dtype.kind == "O":
        return v
    raise Untranslatable(f"cast to dtype {dtype}")


def trunc_term(t):
    return z3.If(t >= 0, z3.ToInt(t), -z3.ToInt(-t))


def elem_scalar(v, dtype):
    """Element read out of an array -> numpy scalar value."""
    v0 = raw(v)
    if isinstance(v0, Sym):
        return Sym(v0.t, v0.kind, True, v0.nan)
    if dtype.kind == "O":
        return v
    return NpScalar(v0, dtype)


# ----------------------------------------------------------------------------------------------
# arrays with symbolic extents (stub semantics S): z3 array terms

class TArr:
    """1-D/2-D array with symbolic extents: `term` is a z3 Array (Int[, Int] -> Real|Int|Bool).

    `nan` (float arrays only): a z3 Array of the same domain into Bool -- "this element is NaN" -- or None meaning "no element is
    NaN".  Only the element-wise readers / writers know about it (get, tarr.setitem, isnan).  Every other operation reaches the
    values through `.term`, which is a chokepoint: with a mask present it demands that the path condition entails "no element
    in bounds is NaN" (then the mask is dropped) and is outside the subset otherwise -- no operation silently ignores a NaN."""

    __slots__ = ("_term", "shape", "dtype", "slice_of", "gather_of", "nan")

    def __init__(self, term, shape, dtype, nan=None):
        self._term = term
        self.shape = tuple(shape)
        self.dtype = _np.dtype(dtype)
        self.slice_of = None      # (base array term, lo, hi) when this is a 1-D slice base[lo:hi] (kept for sums)
        self.gather_of = None     # (array term, index array term) when this is array[index array]
        self.nan = nan

    @property
    def term(self):
        if self.nan is not None:
            I = CURRENT.get("interp")
            idx = [z3.Int(f"%nn!{k}") for k in range(len(self.shape))]
            inb = z3.And(*[z3.And(i >= 0, i < term_of(raw(n), "int")) for i, n in zip(idx, self.shape)])
            if I is not None and getattr(I, "ctx", None) is not None and \
                    I.ctx.entails_full(z3.ForAll(idx, z3.Implies(inb, z3.Not(z3.Select(self.nan, *idx))))):
                self.nan = None
            else:
                raise Untranslatable("an array of symbolic extent that may hold NaN used as a whole")
        return self._term

    @term.setter
    def term(self, t):
        self._term = t

    @property
    def ndim(self):
        return len(self.shape)

    def kind(self):
        return {"f": "float", "i": "int", "u": "int", "b": "bool"}[self.dtype.kind]

    def get(self, idx):
        ts = [term_of(i, "int") for i in idx]
        t = z3.Select(self._term, *ts)
        if self.nan is not None:
            return mk(simp(t), self.kind(), True, simp(z3.Select(self.nan, *ts)))
        return mk(simp(t), self.kind(), True)

    def nan_at(self, *idx):
        """contract-side: is the element at idx NaN"""
        if self.nan is None:
            return False
        return mk(simp(z3.Select(self.nan, *[term_of(raw(i), "int") for i in idx])), "bool")

    def __getitem__(self, idx):
        """contract-side read (no bounds branching): element term at (possibly symbolic) index"""
        if not isinstance(idx, tuple):
            idx = (idx,)
        r = self.get(idx)
        return Sym(r.t, r.kind, False) if isinstance(r, Sym) else raw(r)

    def __repr__(self):
        return f"TArr(shape={self.shape}, dtype={self.dtype}, {str(self._term)[:60]})"


class SymRange:
    """range(n) with a symbolic stop"""

    def __init__(self, n):
        self.n = n            # Sym int

    def elem(self, k):        # k: z3 Int term
        return mk(k, "int")


class SymList:
    """A Python list of symbolic length n whose k-th element is elem(k) (k a z3 Int term): the value of a list comprehension
    over range(<symbolic>) / over another such list.  Immutable (the code under contract only iterates / indexes it)."""

    def __init__(self, n, elem):
        self.n = n            # Sym int
        self.elem = elem


class SymGen:
    """generator expression over a SymRange / SymList (single use is not modelled: the consumers read it once)"""

    def __init__(self, n, elem):
        self.n = n
        self.elem = elem


# ----------------------------------------------------------------------------------------------
# repository objects

class Obj:
    """Instance of a repository class (or of `object`)."""

    def __init__(self, cls):
        object.__setattr__(self, "_cls", cls)
        object.__setattr__(self, "_d", {})

    def __getattr__(self, name):
        # contract-side convenience: plain attribute access reads the instance dict or evaluates
        # properties through the interpreter that created the object
        d = object.__getattribute__(self, "_d")
        if name in d:
            return d[name]
        cls = object.__getattribute__(self, "_cls")
        return cls.interp.getattr(self, name)

    def __setattr__(self, name, v):
        object.__getattribute__(self, "_d")[name] = v

    def __repr__(self):
        cls = object.__getattribute__(self, "_cls")
        return f"<{cls.name} obj {list(object.__getattribute__(self, '_d'))}>"


def obj_cls(o):
    return object.__getattribute__(o, "_cls")


def obj_dict(o):
    return object.__getattribute__(o, "_d")


class GenList:
    """Result of a generator expression: single-use iterable (exhaustion is modelled)."""

    def __init__(self, items):
        self.items = items
        self.consumed = False

    def take(self):
        if self.consumed:
            return []
        self.consumed = True
        return self.items
