"""numpy stubs, semantics B (concrete extents, symbolic contents).  Trusted: each entry states numpy's
documented behaviour; dtype facts are delegated to the *installed* numpy on dummy operands.
"""
from __future__ import annotations

import itertools
import math
import numpy as _np
import z3

from .values import (Sym, Arr, TArr, Obj, NpScalar, GenList, Untranslatable, Raised, ZeroDiv, raw, kind_of,
                     term_of, mk, simp, binop, unop, compare, absval, ite, logic_and, logic_or, logic_not,
                     is_np_scalar, is_special_float, cast_elem, elem_scalar, nan_of, concretize, ufun,
                     DT_OF_KIND, trunc_term, obj_cls)

_CMP = ("<", "<=", ">", ">=", "==", "!=")


def isinstance_np(I, v, t):
    if t.name == "ndarray":
        return isinstance(v, (Arr, TArr))
    raise Untranslatable(f"isinstance against np.{t.name}")


def isinstance_real_np(I, v, t):
    if t is _np.dtype:
        return isinstance(v, _np.dtype)
    if isinstance(v, NpScalar):
        return issubclass(v.dtype.type, t)
    if isinstance(v, Sym) and v.np:
        return issubclass({"int": _np.int64, "float": _np.float64, "bool": _np.bool_}[v.kind], t)
    return False


def make_numpy(I):
    return NumpyStub(I)


def _prod(shape):
    n = 1
    for s in shape:
        n *= s
    return n


class NumpyStub:
    name = "numpy"

    def __init__(self, I):
        from .interp import Builtin, NpTypeMarker, ModuleNS
        self.I = I
        self.d = d = {}
        self.used = set()
        d["__name__"] = "numpy"
        d["nan"] = float("nan")
        d["inf"] = float("inf")
        d["pi"] = math.pi
        d["e"] = math.e
        d["newaxis"] = None
        d["ndarray"] = NpTypeMarker("ndarray", _np.ndarray)
        for t in ("int8", "int16", "int32", "int64", "uint8", "uint16", "uint32", "uint64", "float16", "float32",
                  "float64", "float128", "longdouble", "bool_", "integer", "floating", "number", "signedinteger",
                  "unsignedinteger", "generic", "dtype", "iinfo", "finfo", "object_", "str_", "inexact",
                  "complexfloating", "datetime64", "timedelta64"):
            if hasattr(_np, t):
                d[t] = getattr(_np, t)
        for name in dir(self):
            if name.startswith("f_"):
                d[name[2:]] = Builtin("np." + name[2:], self._logged(name[2:], getattr(self, name)))
        d["multiply"] = _UFuncNS(self, "*")
        d["add"] = _UFuncNS(self, "+")
        d["subtract"] = _UFuncNS(self, "-")
        d["random"] = ModuleNS("numpy.random", {})
        d["linalg"] = ModuleNS("numpy.linalg", {})
        d["errstate"] = Builtin("np.errstate", lambda **k: _NullCM())

    def _logged(self, name, f):
        def has_tarr(x, depth=0):
            if isinstance(x, TArr):
                return True
            if depth < 2 and isinstance(x, (list, tuple)):
                return any(has_tarr(y, depth + 1) for y in x)
            return False

        def g(*a, **k):
            self.I.stub_log.add("np." + name)
            try:
                return f(*a, **k)
            except (AttributeError, TypeError, IndexError) as e:
                # a stub written for arrays of concrete extent that was handed an array of symbolic extent: outside the subset
                if any(has_tarr(x) for x in a) or any(has_tarr(x) for x in k.values()):
                    raise Untranslatable(f"np.{name} on an array of symbolic extent ({type(e).__name__}: {e})")
                raise
        return g

    def __repr__(self):
        return "<numpy stub>"

    def py_getattr(self, name):
        if name in self.d:
            return self.d[name]
        raise Untranslatable(f"np.{name}")

    # ------------------------------------------------------------------ construction helpers
    def infer(self, x):
        """nested python structure -> (flat elems, shape, dtype)"""
        if isinstance(x, Arr):
            return x.elems(), x.shape, x.dtype
        if isinstance(x, TArr):
            raise Untranslatable("symbolic-extent array inside a concrete-extent operation")
        if isinstance(x, GenList):
            raise Untranslatable("np.asarray of a generator")
        if isinstance(x, (list, tuple, range)):
            parts = [self.infer(y) for y in x]
            if not parts:
                return [], (0,), _np.dtype(float)
            shapes = {p[1] for p in parts}
            if len(shapes) > 1:
                raise Raised(ValueError("setting an array element with a sequence. The requested array has an "
                                        "inhomogeneous shape after 1 dimensions."))
            shp = parts[0][1]
            dt = self.common_dtype([p[2] for p in parts])
            elems = [e for p in parts for e in p[0]]
            return elems, (len(parts),) + tuple(shp), dt
        if isinstance(x, NpScalar):
            return [x.v], (), x.dtype
        if isinstance(x, Sym):
            return [x], (), DT_OF_KIND[x.kind]
        if isinstance(x, bool):
            return [x], (), _np.dtype(bool)
        if isinstance(x, int):
            return [x], (), _np.dtype(_np.int64)
        if isinstance(x, float):
            return [x], (), _np.dtype(_np.float64)
        if x is None or isinstance(x, (str, Obj, dict)):
            return [x], (), _np.dtype(object) if not isinstance(x, str) else _np.dtype("<U1")
        raise Untranslatable(f"np.asarray of {type(x).__name__}")

    def common_dtype(self, dts):
        dts = list(dts)
        if not dts:
            return _np.dtype(float)
        try:
            return _np.result_type(*dts)
        except TypeError as e:
            raise Raised(e)

    def mk_arr(self, elems, shape, dtype):
        dtype = _np.dtype(dtype)
        return Arr.from_list([cast_elem(e, dtype) if dtype.kind in "fiub" else e for e in elems], shape, dtype)

    def as_arr(self, x, dtype=None):
        if isinstance(x, Arr) and (dtype is None or _np.dtype(dtype) == x.dtype):
            return x
        if isinstance(x, TArr):
            if dtype is not None and _np.dtype(dtype) != x.dtype:
                from . import tarr
                return tarr.array_attr(self, x, "astype")(dtype)
            return x
        if hasattr(x, "lib") and hasattr(x, "values") and isinstance(getattr(x, "values"), Arr):
            return self.as_arr(x.values, dtype)        # pandas / polars Series convert through __array__
        if isinstance(x, Obj):
            f, _ = obj_cls(x).lookup("__array__")
            if f is not None:
                from .interp import BoundMethod
                return self.as_arr(self.I.call(BoundMethod(f, x), [], {}), dtype)
            return Arr.from_list([x], (), object)
        elems, shape, dt = self.infer(x)
        if dtype is not None:
            tgt = _np.dtype(dtype)
            if dt.kind in "OU" and tgt.kind in "fiu":
                if dt.kind == "O" and any(e is None for e in elems) and tgt.kind == "f":
                    raise Raised(TypeError("float() argument must be a string or a real number, not 'NoneType'"))
                raise Raised(ValueError(f"could not convert {dt} to {tgt}"))
            dt = tgt
        if dt.kind in "OU":
            return Arr.from_list(elems, shape, dt)
        return self.mk_arr(elems, shape, dt)

    def dummy(self, x):
        if isinstance(x, Arr):
            return _np.ones(1, x.dtype)
        if isinstance(x, NpScalar):
            return x.dtype.type(1)
        if isinstance(x, Sym):
            if x.np:
                return {"int": _np.int64, "float": _np.float64, "bool": _np.bool_}[x.kind](1)
            return {"int": 1, "float": 1.0, "bool": True}[x.kind]
        if isinstance(x, bool):
            return True
        if isinstance(x, int):
            return 1
        if isinstance(x, float):
            return 1.0
        raise Untranslatable(f"dtype of {type(x).__name__}")

    def result_dtype(self, op, a, b):
        import operator
        f = {"+": operator.add, "-": operator.sub, "*": operator.mul, "/": operator.truediv, "//": operator.floordiv,
             "%": operator.mod, "**": operator.pow, "<": operator.lt, "<=": operator.le, ">": operator.gt,
             ">=": operator.ge, "==": operator.eq, "!=": operator.ne, "&": operator.and_, "|": operator.or_,
             "^": operator.xor}[op]
        try:
            with _np.errstate(all="ignore"):
                r = f(self.dummy(a), self.dummy(b))
        except TypeError as e:
            raise Raised(e)
        return _np.asarray(r).dtype

    # ------------------------------------------------------------------ element-wise
    def scalar_op(self, op, x, y, npflag=True):
        """op on two scalar element values (raw), numpy semantics (division by zero -> inf/nan)."""
        if op in _CMP:
            return compare(op, x, y)
        if op == "&":
            return logic_and(x, y)
        if op == "|":
            return logic_or(x, y)
        if op == "^":
            return logic_not(compare("==", x, y))
        xx = x if is_np_scalar(x) or not isinstance(x, Sym) else Sym(x.t, x.kind, True, x.nan)
        try:
            if isinstance(xx, (int, float)) and not isinstance(xx, bool) and isinstance(raw(y), (int, float)):
                r = binop(op, NpScalar(xx, _np.float64 if isinstance(xx, float) else _np.int64), y)
            else:
                r = binop(op, xx, y)
        except ZeroDiv as z:
            r = self.I.division_by_maybe_zero(op, xx if is_np_scalar(xx) else NpScalar(xx, _np.float64), y, z.cond)
        return raw(r)

    def broadcast_shapes(self, s1, s2):
        n = max(len(s1), len(s2))
        a = (1,) * (n - len(s1)) + tuple(s1)
        b = (1,) * (n - len(s2)) + tuple(s2)
        out = []
        for x, y in zip(a, b):
            if x == y or y == 1:
                out.append(x)
            elif x == 1:
                out.append(y)
            else:
                raise Raised(ValueError(f"operands could not be broadcast together with shapes {tuple(s1)} {tuple(s2)}"))
        return tuple(out)

    def bcast_elems(self, arr, shape):
        """elements of arr broadcast to `shape`, row-major."""
        if arr.shape == tuple(shape):
            return arr.elems()
        n = len(shape)
        s = (1,) * (n - arr.ndim) + arr.shape
        el = arr.elems()
        out = []
        for idx in itertools.product(*[range(k) for k in shape]):
            k = 0
            for i, d in zip(idx, s):
                k = k * d + (i if d != 1 else 0)
            out.append(el[k])
        return out

    def binary(self, op, a, b):
        if isinstance(a, TArr) or isinstance(b, TArr):
            from . import tarr
            return tarr.binary(self, op, a, b)
        if isinstance(a, SliceArr) or isinstance(b, SliceArr):
            return SliceArr.binary(self, op, a, b)
        if op in ("<<", ">>", "@"):
            raise Untranslatable(f"array operator {op}")
        for x in (a, b):
            if x is None or isinstance(x, (str, dict)):
                if op == "==":
                    return False
                if op == "!=":
                    return True
                raise Raised(TypeError(f"unsupported operand type(s) for {op}: 'ndarray' and '{type(x).__name__}'"))
        aa = a if isinstance(a, Arr) else (self.as_arr(a) if isinstance(a, (list, tuple)) else a)
        bb = b if isinstance(b, Arr) else (self.as_arr(b) if isinstance(b, (list, tuple)) else b)
        dt = self.result_dtype(op, aa, bb)
        sa = aa.shape if isinstance(aa, Arr) else ()
        sb = bb.shape if isinstance(bb, Arr) else ()
        if op in ("==", "!=") and isinstance(aa, Arr) and isinstance(bb, Arr):
            try:
                shape = self.broadcast_shapes(sa, sb)
            except Raised:
                return op == "!="   # numpy: elementwise comparison failed -> scalar (with a warning/err in new versions)
        else:
            shape = self.broadcast_shapes(sa, sb)
        ea = self.bcast_elems(aa, shape) if isinstance(aa, Arr) else [raw(aa)] * _prod(shape)
        eb = self.bcast_elems(bb, shape) if isinstance(bb, Arr) else [raw(bb)] * _prod(shape)
        if (isinstance(aa, Arr) and aa.dtype.kind == "O") or (isinstance(bb, Arr) and bb.dtype.kind == "O"):
            raise Untranslatable("arithmetic on object arrays")
        res = [self.scalar_op(op, x, y) for x, y in zip(ea, eb)]
        return self.mk_arr(res, shape, dt)

    def unary(self, op, a):
        if isinstance(a, TArr):
            from . import tarr
            return tarr.unary(self, op, a)
        if op == "~":
            if a.dtype.kind != "b":
                raise Untranslatable("~ on non-bool array")
            return self.mk_arr([logic_not(x) for x in a.elems()], a.shape, bool)
        return self.mk_arr([raw(unop(op, x)) for x in a.elems()], a.shape, a.dtype)

    def inplace(self, op, a, b):
        """a op= b : writes through a's buffer; same_kind casting rule from the installed numpy."""
        if isinstance(a, TArr):
            from . import tarr
            return tarr.inplace(self, op, a, b)
        import operator
        f = {"+": operator.iadd, "-": operator.isub, "*": operator.imul, "/": operator.itruediv,
             "//": operator.ifloordiv, "%": operator.imod, "**": operator.ipow, "&": operator.iand,
             "|": operator.ior}[op]
        bb = b if isinstance(b, Arr) else (self.as_arr(b) if isinstance(b, (list, tuple)) else b)
        try:
            with _np.errstate(all="ignore"):
                x = _np.ones(1, a.dtype)
                f(x, self.dummy(bb))
        except TypeError as e:   # UFuncTypeError (same_kind) is a TypeError
            raise Raised(e)
        sb = bb.shape if isinstance(bb, Arr) else ()
        shape = self.broadcast_shapes(a.shape, sb)
        if shape != a.shape:
            raise Raised(ValueError(f"non-broadcastable output operand with shape {a.shape} doesn't match the "
                                    f"broadcast shape {shape}"))
        eb = self.bcast_elems(bb, shape) if isinstance(bb, Arr) else [raw(bb)] * _prod(shape)
        ea = a.elems()   # read everything first (b may alias a)
        res = [cast_elem(self.scalar_op(op, x, y), a.dtype) for x, y in zip(ea, eb)]
        if not a.writeable:
            raise Raised(ValueError("output array is read-only"))
        for p, v in zip(a.pos, res):
            a.store[p] = v
        return a

    # ------------------------------------------------------------------ indexing
    def norm_index(self, a, idx):
        if not isinstance(idx, tuple):
            idx = (idx,)
        idx = list(idx)
        if any(x is Ellipsis for x in idx):
            k = idx.index(Ellipsis)
            used = sum(1 for x in idx if x is not None and x is not Ellipsis)
            idx[k:k + 1] = [slice(None)] * (a.ndim - used)
        return idx

    def sym_axis_index(self, i, n):
        """normalise a symbolic index against extent n; raises IndexError on the out-of-range path."""
        t = term_of(i, "int")
        ok = z3.And(t >= -n, t < n)
        if not self.I.ctx.branch(ok):
            raise Raised(IndexError(f"index out of bounds for axis with size {n}"))
        return z3.simplify(z3.If(t < 0, t + n, t))

    def getitem(self, a, idx, for_write=False):
        if isinstance(a, TArr):
            from . import tarr
            return tarr.getitem(self, a, idx)
        I = self.I
        if isinstance(idx, list):
            idx = self.as_arr(idx)
        if isinstance(idx, Arr) and idx.dtype.kind == "b":
            return self.mask_select(a, idx)
        if isinstance(a, SliceArr):
            raise Untranslatable("indexing a slice with symbolic bounds")
        items = self.norm_index(a, idx)
        if (a.ndim == 1 and len(items) == 1 and isinstance(items[0], slice)
                and any(isinstance(raw(c), Sym) and isinstance(raw(concretize(raw(c))), Sym) for c in (items[0].start, items[0].stop))):
            r = self.sym_slice_1d(a, items[0])
            if isinstance(r, tuple):
                _, lo_t, k = r
                per_axis = [("symwin", lo_t, k)]
                vals = []
                for j in range(k):
                    vals.append(self.sym_read(a, [None], [("sym", z3.simplify(lo_t + j))]))
                if for_write:
                    return WindowView(self, a, lo_t, k, vals)
                return Arr.from_list(vals, (k,), a.dtype)
            return r
        if any(isinstance(x, (Arr, list)) for x in items):
            return self.advanced_index(a, items)
        # basic indexing (+ symbolic integers)
        nidx = sum(1 for x in items if x is not None)
        if nidx > a.ndim:
            raise Raised(IndexError(f"too many indices for array: array is {a.ndim}-dimensional, but {nidx} were indexed"))
        per_axis = []   # list of (kind, data) for each array axis
        out_shape = []
        ax = 0
        sym_axes = []
        layout = []     # output dims: ('new',) or ('ax', axis)
        for x in items:
            if x is None:
                layout.append(("new",))
                continue
            n = a.shape[ax]
            if isinstance(x, slice):
                symb = any(isinstance(raw(c), Sym) and isinstance(raw(concretize(raw(c))), Sym) for c in (x.start, x.stop, x.step))
                if symb:
                    w = self.sym_slice_1d(Arr.from_list([0] * n, (n,), a.dtype), x)
                    if not isinstance(w, tuple):
                        raise Untranslatable("slice with symbolic bounds (not a window of concrete length) on an n-d array")
                    per_axis.append(("win", w[1], w[2]))
                    sym_axes.append(ax)
                    layout.append(("ax", ax))
                    ax += 1
                    continue
                sl = I.concrete_slice(x)
                rng = list(range(*sl.indices(n)))
                per_axis.append(("range", rng))
                layout.append(("ax", ax))
            else:
                x0 = raw(x)
                if isinstance(x0, Sym):
                    x0 = raw(concretize(x0))
                if isinstance(x0, Sym):
                    if x0.kind != "int":
                        raise Raised(IndexError("only integers, slices (`:`), ellipsis (`...`), numpy.newaxis (`None`) and integer or boolean arrays are valid indices"))
                    per_axis.append(("sym", self.sym_axis_index(x0, n)))
                    sym_axes.append(ax)
                elif isinstance(x0, (bool,)):
                    raise Untranslatable("boolean scalar index")
                elif isinstance(x0, int):
                    if not -n <= x0 < n:
                        raise Raised(IndexError(f"index {x0} is out of bounds for axis {ax} with size {n}"))
                    per_axis.append(("int", x0 % n if n else 0))
                elif isinstance(x0, float):
                    raise Raised(IndexError("only integers, slices (`:`), ellipsis (`...`), numpy.newaxis (`None`) and integer or boolean arrays are valid indices"))
                else:
                    raise Raised(IndexError(f"invalid index of type {type(x0).__name__}"))
            ax += 1
        while ax < a.ndim:
            per_axis.append(("range", list(range(a.shape[ax]))))
            layout.append(("ax", ax))
            ax += 1
        shape = []
        for l in layout:
            if l[0] == "new":
                shape.append(1)
            else:
                p_ = per_axis[l[1]]
                shape.append(p_[2] if p_[0] == "win" else len(p_[1]))
        if not sym_axes:
            ranges = [([p[1]] if p[0] == "int" else p[1]) for p in per_axis]
            pos = [a.pos[a.flat_index(ix)] for ix in itertools.product(*ranges)]
            if not shape and all(p[0] == "int" for p in per_axis):
                return elem_scalar(a.store[pos[0]], a.dtype)
            v = Arr(a.store, pos, shape, a.dtype)
            v.writeable = a.writeable
            return v
        # symbolic integer index: result is a *copy-valued* read (ite chain); exact for reads
        out = []
        free = []
        for p in per_axis:
            if p[0] == "int":
                free.append([("c", p[1])])
            elif p[0] == "range":
                free.append([("c", v) for v in p[1]])
            elif p[0] == "win":
                free.append([("s", z3.simplify(p[1] + j)) for j in range(p[2])])
            else:
                free.append([("s", p[1])])
        combos = list(itertools.product(*free))
        for combo in combos:
            ix = [v if k == "c" else None for k, v in combo]
            pa = [None if k == "c" else ("sym", v) for k, v in combo]
            out.append(self.sym_read(a, ix, pa))
        if not shape:
            return elem_scalar(out[0], a.dtype)
        sv = SymView(self, a, per_axis, shape, out, combos)
        return sv if for_write else sv.to_arr()

    def sym_read(self, a, ix, per_axis):
        """value of a[ix] where None entries of ix are symbolic axes (ite chain over that axis)."""
        for k, v in enumerate(ix):
            if v is None:
                t = per_axis[k][1]
                n = a.shape[k]
                acc = None
                for j in reversed(range(n)):
                    ix2 = list(ix)
                    ix2[k] = j
                    val = self.sym_read(a, ix2, per_axis)
                    acc = val if acc is None else raw(ite(mk(t == j, "bool"), val, acc))
                if acc is None:
                    raise Raised(IndexError("index out of bounds (empty axis)"))
                return acc
        return a.store[a.pos[a.flat_index(ix)]]

    def sym_slice(self, s, n):
        raise Untranslatable("slice with symbolic bounds on a concrete-extent array")

    def sym_slice_1d(self, a, s):
        """a[lo:hi] with symbolic bounds on a 1-D concrete-extent array -> SliceArr (masked view)."""
        if s.step is not None and raw(s.step) != 1:
            raise Untranslatable("strided slice with symbolic bounds")
        n = a.shape[0]

        def bound(v, default):
            if v is None:
                return z3.IntVal(default)
            t = term_of(raw(v), "int")
            t = z3.If(t < 0, t + n, t)
            return z3.simplify(z3.If(t < 0, 0, z3.If(t > n, n, t)))
        lo, hi = bound(s.start, 0), bound(s.stop, n)
        if s.start is not None and s.stop is not None:
            # a[lo : lo + k] with a concrete length k: a window at a symbolic offset
            d = z3.simplify(term_of(raw(s.stop), "int") - term_of(raw(s.start), "int"))
            if z3.is_int_value(d):
                k = d.as_long()
                lo_t = term_of(raw(s.start), "int")
                if k >= 0 and self.I.ctx.branch(z3.And(lo_t >= 0, lo_t + k <= n)):
                    return ("window", z3.simplify(lo_t), k)
                if k >= 0:
                    raise Untranslatable("window slice with symbolic offset partly outside the array")
        return SliceArr(a, lo, hi)

    def mask_select(self, a, mask):
        I = self.I
        if mask.shape != a.shape[:mask.ndim]:
            raise Raised(IndexError(f"boolean index did not match indexed array; shape {a.shape} vs mask {mask.shape}"))
        keep = []
        for m in mask.elems():
            keep.append(I.truth(m) if not isinstance(m, bool) else m)
        inner = a.shape[mask.ndim:]
        k = _prod(inner)
        el = a.elems()
        out = []
        for i, kp in enumerate(keep):
            if kp:
                out.extend(el[i * k:(i + 1) * k])
        return Arr.from_list(out, (sum(keep),) + tuple(inner), a.dtype)

    def advanced_index(self, a, items):
        I = self.I
        # supported: integer arrays (concrete or symbolic) on any axes, broadcast together (incl. np.ix_ meshes),
        # mixed with full slices
        arrs = {}
        ax = 0
        layout = []
        for x in items:
            if x is None:
                raise Untranslatable("newaxis mixed with advanced indexing")
            if isinstance(x, (Arr, list)):
                xa = self.as_arr(x)
                if xa.dtype.kind == "b":
                    if xa.ndim != 1:
                        raise Untranslatable("multi-dimensional boolean index in a tuple")
                    sel = [i for i, m in enumerate(xa.elems()) if (I.truth(m) if not isinstance(m, bool) else m)]
                    xa = Arr.from_list(sel, (len(sel),), _np.int64)
                elif xa.dtype.kind not in "iu":
                    if xa.size == 0:
                        xa = Arr.from_list([], xa.shape, _np.int64)
                    else:
                        raise Raised(IndexError("arrays used as indices must be of integer (or boolean) type"))
                arrs[ax] = xa
                layout.append(("adv", ax))
            elif isinstance(x, slice):
                sl = I.concrete_slice(x)
                layout.append(("range", ax, list(range(*sl.indices(a.shape[ax])))))
            else:
                x0 = raw(x)
                arrs[ax] = Arr.from_list([x0], (), _np.int64)
                layout.append(("adv", ax))
            ax += 1
        while ax < a.ndim:
            layout.append(("range", ax, list(range(a.shape[ax]))))
            ax += 1
        bshape = ()
        for xa in arrs.values():
            bshape = self.broadcast_shapes(bshape, xa.shape)
        bel = {k: self.bcast_elems(xa, bshape) for k, xa in arrs.items()}
        adv_axes = sorted(arrs)
        contiguous = adv_axes == list(range(adv_axes[0], adv_axes[-1] + 1))
        rng = [l for l in layout if l[0] == "range"]
        before = [l for l in rng if l[1] < adv_axes[0]] if contiguous else []
        after = [l for l in rng if l not in before]
        shape = tuple(len(l[2]) for l in before) + tuple(bshape) + tuple(len(l[2]) for l in after)
        out = []
        nb = _prod(bshape)
        for ib in itertools.product(*[l[2] for l in before]):
            for kb in range(nb):
                for ia in itertools.product(*[l[2] for l in after]):
                    ix = [None] * a.ndim
                    per_axis = [None] * a.ndim
                    for l, v in zip(before, ib):
                        ix[l[1]] = v
                    for l, v in zip(after, ia):
                        ix[l[1]] = v
                    for k2 in adv_axes:
                        v = raw(bel[k2][kb])
                        if isinstance(v, Sym):
                            v = raw(concretize(v))
                        n = a.shape[k2]
                        if isinstance(v, Sym):
                            per_axis[k2] = ("sym", self.sym_axis_index(v, n))
                        else:
                            if not -n <= v < n:
                                raise Raised(IndexError(f"index {v} is out of bounds for axis {k2} with size {n}"))
                            ix[k2] = v % n
                    out.append(self.sym_read(a, ix, per_axis))
        return Arr.from_list(out, shape, a.dtype)

    def setitem(self, a, idx, v):
        if isinstance(a, TArr):
            from . import tarr
            return tarr.setitem(self, a, idx, v)
        I = self.I
        if not a.writeable:
            raise Raised(ValueError("assignment destination is read-only"))
        if isinstance(idx, list):
            idx = self.as_arr(idx)
        if isinstance(idx, Arr) and idx.dtype.kind == "b":
            # a[mask] = v  (v scalar or matching) -- elementwise ite, no branching needed
            if idx.shape != a.shape:
                raise Untranslatable("partial boolean mask assignment")
            if isinstance(v, (Arr, list, tuple)):
                raise Untranslatable("boolean mask assignment of an array value")
            vv = cast_elem(v, a.dtype)
            for p, m in zip(a.pos, idx.elems()):
                if isinstance(m, bool):
                    if m:
                        a.store[p] = vv
                else:
                    a.store[p] = raw(ite(m, vv, a.store[p]))
            return
        target = self.getitem(a, idx, for_write=True)
        if isinstance(target, (SymView, WindowView)):
            return target.assign(v)
        if not isinstance(target, Arr):
            # scalar position
            items = self.norm_index(a, idx)
            per = []
            ax = 0
            symbolic = False
            for x in items:
                x0 = raw(x)
                if isinstance(x0, Sym):
                    x0 = raw(concretize(x0))
                if isinstance(x0, Sym):
                    per.append(("sym", z3.simplify(z3.If(x0.t < 0, x0.t + a.shape[ax], x0.t))))
                    symbolic = True
                else:
                    per.append(("int", x0 % a.shape[ax]))
                ax += 1
            if isinstance(v, (Arr, list, tuple)):
                va = self.as_arr(v)
                if va.size != 1:
                    raise Raised(ValueError("setting an array element with a sequence."))
                v = va.elems()[0]
            vv = cast_elem(v, a.dtype)
            if not symbolic:
                a.set([p[1] for p in per], vv)
            else:
                self.sym_write(a, per, vv)
            return
        # array target (view): broadcast v into it
        if isinstance(v, (Arr, list, tuple)):
            va = self.as_arr(v)
            shape = self.broadcast_shapes(target.shape, va.shape)
            if shape != target.shape:
                raise Raised(ValueError(f"could not broadcast input array from shape {va.shape} into shape {target.shape}"))
            vals = self.bcast_elems(va, target.shape)
        else:
            vals = [raw(v)] * target.size
        vals = [cast_elem(x, a.dtype) for x in vals]
        if not target.same_buffer(a):
            # advanced-index assignment: target is a copy; recompute positions
            raise Untranslatable("assignment through advanced indexing")
        for p, x in zip(target.pos, vals):
            a.store[p] = x

    def sym_write(self, a, per, vv):
        ranges = [range(a.shape[k]) if p[0] == "sym" else [p[1]] for k, p in enumerate(per)]
        for ix in itertools.product(*ranges):
            cond = [p[1] == i for p, i in zip(per, ix) if p[0] == "sym"]
            c = mk(z3.simplify(z3.And(*cond)) if len(cond) > 1 else z3.simplify(cond[0]), "bool")
            pos = a.pos[a.flat_index(ix)]
            a.store[pos] = raw(ite(c, vv, a.store[pos]))

    def iterate(self, a):
        if a.ndim == 0:
            raise Raised(TypeError("iteration over a 0-d array"))
        return [self.getitem(a, i) for i in range(a.shape[0])]

    # ------------------------------------------------------------------ attributes
    def array_attr(self, a, name):
        from .interp import Builtin
        if isinstance(a, TArr):
            from . import tarr
            return tarr.array_attr(self, a, name)
        if isinstance(a, SliceArr):
            if name in ("size",):
                return a.sym_len
            if name == "shape":
                return (a.sym_len,)
            if name not in ("sum", "dtype", "ndim"):
                raise Untranslatable(f"ndarray.{name} on a slice with symbolic bounds")
        if name == "shape":
            return a.shape
        if name == "ndim":
            return a.ndim
        if name == "size":
            return a.size
        if name == "dtype":
            return a.dtype
        if name == "T":
            return self.transpose(a)
        if name == "flat":
            return Arr(a.store, list(a.pos), (a.size,), a.dtype)
        if name == "base":
            return None
        m = getattr(self, "m_" + name, None)
        if m is None:
            if not hasattr(_np.ndarray, name):
                raise Raised(AttributeError(f"'numpy.ndarray' object has no attribute '{name}'"))
            raise Untranslatable(f"ndarray.{name}")
        self.I.stub_log.add("ndarray." + name)
        return Builtin("ndarray." + name, lambda *args, **kw: m(a, *args, **kw))

    def scalar_attr(self, v, name):
        from .interp import Builtin
        if name == "item":
            def item():
                v0 = raw(v)
                if isinstance(v0, Sym):
                    return Sym(v0.t, v0.kind, False, v0.nan)
                return v0
            return Builtin("item", item)
        if name == "dtype":
            if isinstance(v, NpScalar):
                return v.dtype
            if isinstance(v, Sym) and v.np:
                return DT_OF_KIND[v.kind]
        if name == "shape" and is_np_scalar(v):
            return ()
        if name == "ndim" and is_np_scalar(v):
            return 0
        if name == "size" and is_np_scalar(v):
            return 1
        if name == "astype" and is_np_scalar(v):
            return Builtin("astype", lambda dt: self.call_type(_np.dtype(dt).type, [v], {}))
        if name in ("sum", "min", "max", "copy") and is_np_scalar(v):
            return Builtin(name, lambda *a, **k: v)
        if name == "real":
            return v
        if name == "is_integer" and kind_of(raw(v)) == "float":
            def is_integer():
                v0 = raw(v)
                if isinstance(v0, Sym):
                    return mk(z3.ToReal(z3.ToInt(v0.t)) == v0.t, "bool")
                return float(v0).is_integer()
            return Builtin("is_integer", is_integer)
        raise Raised(AttributeError(f"'{self.I.type_name(v)}' object has no attribute '{name}'"))

    def dtype_attr(self, o, name):
        from .interp import Builtin
        v = getattr(o, name)
        if callable(v):
            return Builtin(f"dtype.{name}", lambda *a, **k: v(*a, **k))
        if isinstance(v, _np.generic):
            v = v.item()
        return v

    def type_attr(self, t, name):
        if name == "__name__":
            return t.__name__
        raise Untranslatable(f"np type attribute {name}")

    def call_type(self, t, args, kwargs):
        """np.int64(x), np.float64(x), np.dtype(x), np.iinfo(x), ..."""
        I = self.I
        if t is _np.dtype:
            a = args[0]
            try:
                if isinstance(a, (_np.dtype, type, str)) or a is None:
                    return _np.dtype(a)
                raise Raised(TypeError(f"Cannot interpret '{I.py_str(a)}' as a data type"))
            except TypeError as e:
                raise Raised(e)
        if t in (_np.iinfo, _np.finfo):
            try:
                return t(args[0])
            except (ValueError, TypeError) as e:
                raise Raised(e)
        if isinstance(t, type) and issubclass(t, _np.generic):
            from .pystubs import conv_int, conv_float
            dt = _np.dtype(t)
            x = args[0] if args else 0
            if isinstance(x, (Arr, list, tuple)):
                return self.m_astype(self.as_arr(x), dt)
            if dt.kind in "iu":
                r = conv_int(I, x)
            elif dt.kind == "f":
                r = conv_float(I, x)
            elif dt.kind == "b":
                r = I.truth(x)
            else:
                raise Untranslatable(f"np.{t.__name__}()")
            r = raw(r)
            if isinstance(r, Sym):
                return Sym(r.t, r.kind, True, r.nan)
            return NpScalar(r, dt)
        if getattr(t, "name", None) == "ndarray":
            shape = args[0] if args else kwargs.get("shape")
            return self.f_zeros(shape, dtype=kwargs.get("dtype", float))   # uninitialised: modelled as zeros
        raise Untranslatable(f"call of numpy type {t}")

    # ------------------------------------------------------------------ ndarray methods
    def transpose(self, a):
        if a.ndim < 2:
            return a
        shape = tuple(reversed(a.shape))
        pos = []
        for ix in itertools.product(*[range(k) for k in shape]):
            pos.append(a.pos[a.flat_index(tuple(reversed(ix)))])
        v = Arr(a.store, pos, shape, a.dtype)
        return v

    def m_copy(self, a, *x, **k):
        return a.copy()

    def m_astype(self, a, dtype, **k):
        dt = self.to_dtype(dtype)
        return self.mk_arr(a.elems(), a.shape, dt)

    def to_dtype(self, dtype):
        try:
            return _np.dtype(dtype)
        except TypeError as e:
            raise Raised(e)

    def _order_positions(self, a, order):
        """positions of the elements of `a` in the requested flattening order ('C' row-major, 'F' column-major,
        'K' / 'A' for the views modelled here: memory order when the view is a permutation of a block, else row-major)"""
        order = raw(order)
        if order in ("C", None):
            return list(a.pos)
        if order == "F":
            t = self.transpose(a) if a.ndim > 1 else a
            return list(t.pos)
        if order in ("K", "A"):
            return sorted(a.pos) if len(set(a.pos)) == len(a.pos) else list(a.pos)
        raise Raised(ValueError("order must be one of 'C', 'F', 'A', or 'K'"))

    def m_flatten(self, a, order="C"):
        pos = self._order_positions(a, order)
        return Arr.from_list([a.store[p] for p in pos], (a.size,), a.dtype)

    def m_ravel(self, a, order="C"):
        pos = self._order_positions(a, order)
        if pos == sorted(pos):       # contiguous in the requested order: a view, otherwise numpy copies
            return Arr(a.store, pos, (a.size,), a.dtype)
        return Arr.from_list([a.store[p] for p in pos], (a.size,), a.dtype)

    def m_reshape(self, a, *shape):
        if len(shape) == 1 and isinstance(shape[0], (tuple, list)):
            shape = tuple(shape[0])
        shape = [self.I.concrete_int(s) for s in shape]
        if -1 in shape:
            k = shape.index(-1)
            rest = _prod([s for s in shape if s != -1])
            shape[k] = a.size // rest if rest else 0
        if _prod(shape) != a.size:
            raise Raised(ValueError(f"cannot reshape array of size {a.size} into shape {tuple(shape)}"))
        return Arr(a.store, list(a.pos), tuple(shape), a.dtype)

    def m_tolist(self, a):
        def conv(x):
            if isinstance(x, Sym):
                return Sym(x.t, x.kind, False, x.nan)
            return x
        if a.ndim == 0:
            return conv(a.elems()[0])
        tmp = Arr.from_list([conv(x) for x in a.elems()], a.shape, object)
        return tmp.nested()

    def m_item(self, a, *idx):
        if idx:
            raise Untranslatable("item(index)")
        if a.size != 1:
            raise Raised(ValueError("can only convert an array of size 1 to a Python scalar"))
        x = a.elems()[0]
        if isinstance(x, Sym):
            return Sym(x.t, x.kind, False, x.nan)
        return x

    def m_round(self, a, decimals=0, **k):
        if decimals != 0:
            raise Untranslatable("round(decimals != 0)")
        if a.dtype.kind != "f":
            return a.copy()

        def f(e):
            if isinstance(e, Sym):
                n = z3.ToInt(e.t + z3.RealVal("1/2"))
                tie = z3.ToReal(n) == e.t + z3.RealVal("1/2")
                r = z3.If(z3.And(tie, n % 2 == 1), n - 1, n)      # numpy rounds half to even
                return mk(simp(z3.ToReal(r)), "float", True, e.nan)
            return float(_np.round(e))
        return self.mk_arr([f(e) for e in a.elems()], a.shape, a.dtype)

    def m_fill(self, a, v):
        vv = cast_elem(v, a.dtype)
        for p in a.pos:
            a.store[p] = vv

    def axis_reduce(self, a, axis, f, keepdims=False):
        """apply f(list of elems) along axis (None, int or tuple)."""
        I = self.I
        if axis is None:
            return f(a.elems()), ()
        if isinstance(axis, (tuple, list)):
            axes = [I.concrete_int(x) for x in axis]
        else:
            axes = [I.concrete_int(axis)]
        axes2 = []
        for x in axes:
            if not -a.ndim <= x < a.ndim:
                raise Raised(_np.exceptions.AxisError(f"axis {x} is out of bounds for array of dimension {a.ndim}"))
            axes2.append(x % a.ndim)
        if len(set(axes2)) != len(axes2):
            raise Raised(ValueError("duplicate value in 'axis'"))
        keep = [k for k in range(a.ndim) if k not in axes2]
        out_shape = tuple(a.shape[k] for k in keep)
        out = []
        for ix in itertools.product(*[range(a.shape[k]) for k in keep]):
            group = []
            for jx in itertools.product(*[range(a.shape[k]) for k in axes2]):
                full = [0] * a.ndim
                for k, v in zip(keep, ix):
                    full[k] = v
                for k, v in zip(axes2, jx):
                    full[k] = v
                group.append(a.get(full))
            out.append(f(group))
        return out, out_shape

    def _sum_list(self, dt):
        def f(xs):
            acc = 0 if dt.kind in "iub" else 0.0
            for x in xs:
                if isinstance(x, bool):
                    x = int(x)
                elif isinstance(x, Sym) and x.kind == "bool":
                    x = Sym(term_of(x, "int"), "int", True)
                acc = self.scalar_op("+", acc, x)
            return acc
        return f

    def _wrap_reduce(self, res, shape, dt):
        if shape == () and not isinstance(res, list):
            return elem_scalar(cast_elem(res, dt), dt)
        return self.mk_arr(res, shape, dt)

    def m_sum(self, a, axis=None, dtype=None, **k):
        dt = _np.ones(1, a.dtype).sum().dtype if dtype is None else _np.dtype(dtype)
        if isinstance(a, SliceArr):
            return a.masked_sum(self, dt)
        res, shape = self.axis_reduce(a, axis, self._sum_list(dt))
        return self._wrap_reduce(res, shape, dt)

    def m_prod(self, a, axis=None, **k):
        dt = _np.ones(1, a.dtype).prod().dtype

        def f(xs):
            acc = 1
            for x in xs:
                acc = self.scalar_op("*", acc, x)
            return acc
        res, shape = self.axis_reduce(a, axis, f)
        return self._wrap_reduce(res, shape, dt)

    def m_cumsum(self, a, axis=None, dtype=None, **k):
        dt = _np.ones(1, a.dtype).cumsum(dtype=None if dtype is None else self.to_dtype(dtype)).dtype
        if axis is None:
            out, acc = [], 0
            for x in a.elems():
                acc = self.scalar_op("+", acc, x)
                out.append(acc)
            return self.mk_arr(out, (a.size,), dt)
        ax = self.I.concrete_int(axis)
        if not -a.ndim <= ax < a.ndim:
            raise Raised(_np.exceptions.AxisError(f"axis {ax} is out of bounds for array of dimension {a.ndim}"))
        ax %= a.ndim
        res = Arr.from_list([0] * a.size, a.shape, dt)
        for ix in itertools.product(*[range(s) for s in a.shape]):
            if ix[ax] == 0:
                res.set(ix, cast_elem(a.get(ix), dt))
            else:
                prev = list(ix)
                prev[ax] -= 1
                res.set(ix, cast_elem(self.scalar_op("+", res.get(prev), a.get(ix)), dt))
        return res

    def _minmax(self, a, axis, lt, name):
        def f(xs):
            if not xs:
                raise Raised(ValueError(f"zero-size array to reduction operation {name} which has no identity"))
            r = xs[0]
            for x in xs[1:]:
                c = compare("<", x, r) if lt else compare(">", x, r)
                if isinstance(x, float) and x != x:
                    r = x
                    continue
                if isinstance(c, bool):
                    r = x if c else r
                else:
                    r = raw(ite(c, x, r))
            return r
        res, shape = self.axis_reduce(a, axis, f)
        return self._wrap_reduce(res, shape, a.dtype)

    def m_min(self, a, axis=None, **k):
        return self._minmax(a, axis, True, "minimum")

    def m_max(self, a, axis=None, **k):
        return self._minmax(a, axis, False, "maximum")

    def m_any(self, a, axis=None, **k):
        def f(xs):
            acc = False
            for x in xs:
                if not isinstance(x, (bool, Sym)) or (isinstance(x, Sym) and x.kind != "bool"):
                    x = compare("!=", x, 0)
                acc = logic_or(acc, x) if not (acc is False) else x
                if acc is True:
                    return True
            return acc
        res, shape = self.axis_reduce(a, axis, f)
        return self._wrap_reduce(res, shape, _np.dtype(bool))

    def m_all(self, a, axis=None, **k):
        def f(xs):
            acc = True
            for x in xs:
                if not isinstance(x, (bool, Sym)) or (isinstance(x, Sym) and x.kind != "bool"):
                    x = compare("!=", x, 0)
                acc = logic_and(acc, x) if not (acc is True) else x
                if acc is False:
                    return False
            return acc
        res, shape = self.axis_reduce(a, axis, f)
        return self._wrap_reduce(res, shape, _np.dtype(bool))

    def m_mean(self, a, axis=None, **k):
        s = self.m_sum(a, axis)
        n = a.size if axis is None else a.shape[self.I.concrete_int(axis)]
        return self.I.binop("/", s, n)

    def m_argmin(self, a, axis=None):
        if axis is not None or a.ndim != 1:
            raise Untranslatable("argmin with axis")
        el = a.elems()
        if not el:
            raise Raised(ValueError("attempt to get argmin of an empty sequence"))
        best, bi = el[0], 0
        for i, x in enumerate(el[1:], 1):
            c = compare("<", x, best)
            if isinstance(c, bool):
                if c:
                    best, bi = x, i
            else:
                best = raw(ite(c, x, best))
                bi = raw(ite(c, i, bi))
        return elem_scalar(bi, _np.dtype(_np.int64))

    def m_argmax(self, a, axis=None):
        neg = self.unary("-", a)
        return self.m_argmin(neg, axis)

    def m_searchsorted(self, a, v, side="left", sorter=None):
        return self.f_searchsorted(a, v, side=side, sorter=sorter)

    def m_nonzero(self, a):
        raise Untranslatable("nonzero")

    def m_squeeze(self, a, axis=None):
        shape = tuple(s for s in a.shape if s != 1)
        return Arr(a.store, list(a.pos), shape, a.dtype)

    def m_std(self, a, *x, **k):
        raise Untranslatable("std")

    def m_view(self, a, *x, **k):
        return Arr(a.store, list(a.pos), a.shape, a.dtype)

    def m___array__(self, a, *x, **k):
        return a

    # ------------------------------------------------------------------ module functions (f_<name> -> np.<name>)
    def f_asarray(self, x, dtype=None, **k):
        return self.as_arr(x, dtype)

    def f_array(self, x, dtype=None, copy=True, **k):
        r = self.as_arr(x, dtype)
        if r is x and copy:
            return r.copy()
        return r

    def f_copy(self, x, **k):
        if isinstance(x, TArr):
            return TArr(x.term, x.shape, x.dtype)
        return self.as_arr(x).copy()

    def f_ascontiguousarray(self, x, dtype=None):
        return self.as_arr(x, dtype)

    def concretize_extent(self, v, what="array extent"):
        """extent given by a symbolic int: in bounded mode (I.extent_cap set) enumerate its values by branching,
        up to the cap (larger values are excluded from this bounded run: recorded as an assumption)."""
        v0 = raw(v)
        if isinstance(v0, Sym):
            v0 = raw(concretize(v0))
        if not isinstance(v0, Sym):
            return self.I.concrete_int(v0, what)
        cap = getattr(self.I, "extent_cap", None)
        if cap is None:
            raise Untranslatable(f"symbolic {what}")
        t = term_of(v0, "int")
        for k in range(0, cap + 1):
            if self.I.ctx.branch(t == k):
                return k
        if self.I.ctx.branch(t < 0):
            return -1
        self.I.ctx.notes.append(f"bounded: {what} > {cap} not explored")
        from .interp import PathInfeasible
        raise PathInfeasible()

    def shape_arg(self, shape):
        if isinstance(shape, (tuple, list)):
            return tuple(self.concretize_extent(s) for s in shape)
        return (self.concretize_extent(shape),)

    def f_zeros(self, shape, dtype=float, **k):
        dt = self.to_dtype(dtype)
        raw_shape = shape if isinstance(shape, (tuple, list)) else (shape,)
        if getattr(self.I, "extent_cap", None) is None and any(isinstance(raw(s), Sym) and isinstance(raw(concretize(raw(s))), Sym) for s in raw_shape):
            from . import tarr
            return tarr.zeros(self, raw_shape, dt)
        shape = self.shape_arg(shape)
        if any(s < 0 for s in shape):
            raise Raised(ValueError("negative dimensions are not allowed"))
        z = 0 if dt.kind in "iu" else (False if dt.kind == "b" else 0.0)
        return Arr.from_list([z] * _prod(shape), shape, dt)

    def f_empty(self, shape, dtype=float, **k):
        return self.f_zeros(shape, dtype)

    def f_ones(self, shape, dtype=float, **k):
        a = self.f_zeros(shape, dtype)
        one = cast_elem(1, a.dtype)
        a.store[:] = [one] * len(a.store)
        return a

    def f_full(self, shape, fill, dtype=None):
        dt = self.to_dtype(dtype) if dtype is not None else self.infer(fill)[2]
        a = self.f_zeros(shape, dt)
        v = cast_elem(fill, dt)
        a.store[:] = [v] * len(a.store)
        return a

    def f_zeros_like(self, a, dtype=None, **k):
        if isinstance(a, TArr):
            from . import tarr
            dt = _np.dtype(dtype or a.dtype)
            zero = z3.RealVal(0) if dt.kind == "f" else z3.IntVal(0)
            return tarr.from_fn(self, a.shape, dt, lambda *idx: zero)
        a = self.as_arr(a)
        return self.f_zeros(a.shape, dtype or a.dtype)

    def f_ones_like(self, a, dtype=None, **k):
        if isinstance(a, TArr):
            from . import tarr
            return tarr.ones_like(self, a, dtype)
        a = self.as_arr(a)
        return self.f_ones(a.shape, dtype or a.dtype)

    def f_empty_like(self, a, dtype=None, **k):
        return self.f_zeros_like(a, dtype)

    def f_full_like(self, a, fill, dtype=None):
        a = self.as_arr(a)
        return self.f_full(a.shape, fill, dtype or a.dtype)

    def f_arange(self, *args, dtype=None, **k):
        I = self.I
        vals = [raw(x) for x in args]
        if any(isinstance(v, Sym) for v in vals):
            vals = [raw(concretize(v)) if isinstance(v, Sym) else v for v in vals]
        if any(isinstance(v, Sym) for v in vals):
            if len(vals) == 1 and getattr(self.I, "extent_cap", None) is None:
                from . import tarr
                return tarr.arange(self, vals[0], dtype)
            if len(vals) == 1:
                vals = [self.concretize_extent(vals[0], "arange length")]
            elif len(vals) == 2 and getattr(self.I, "extent_cap", None) is not None and all(kind_of(v) != "float" for v in vals):
                n = self.concretize_extent(binop("-", vals[1], vals[0]), "arange length")
                n = max(n, 0)
                return self.mk_arr([raw(binop("+", vals[0], i)) for i in range(n)], (n,), _np.int64)
            else:
                raise Untranslatable("np.arange(start, stop) with symbolic bounds")
        r = _np.arange(*vals, dtype=dtype)
        return self.mk_arr([x.item() for x in r], r.shape, r.dtype)

    def f_linspace(self, start, stop, num=50, endpoint=True, **k):
        n = self.I.concrete_int(num, "linspace num")
        if n < 0:
            raise Raised(ValueError(f"Number of samples, {n}, must be non-negative."))
        if not endpoint:
            raise Untranslatable("linspace(endpoint=False)")
        if n == 0:
            return Arr.from_list([], (0,), float)
        if n == 1:
            return self.mk_arr([start], (1,), float)
        div = n - 1
        step = self.I.binop("/", self.I.binop("-", stop, start), div)
        out = []
        for i in range(n):
            if i == n - 1:
                out.append(stop)
            else:
                out.append(self.I.binop("+", start, self.I.binop("*", i, step)))
        return self.mk_arr(out, (n,), float)

    def f_concatenate(self, arrs, axis=0, **k):
        arrs = [self.as_arr(x) for x in self.I.iterate(arrs)]
        if not arrs:
            raise Raised(ValueError("need at least one array to concatenate"))
        ax = self.I.concrete_int(axis)
        nd = arrs[0].ndim
        if nd == 0 or any(a.ndim == 0 for a in arrs):
            raise Raised(ValueError("zero-dimensional arrays cannot be concatenated"))
        for a in arrs:
            if a.ndim != nd:
                raise Raised(ValueError("all the input array dimensions except for the concatenation axis must match exactly"))
        ax %= nd
        for a in arrs:
            for d in range(nd):
                if d != ax and a.shape[d] != arrs[0].shape[d]:
                    raise Raised(ValueError("all the input array dimensions except for the concatenation axis must match exactly"))
        dt = self.common_dtype([a.dtype for a in arrs])
        shape = list(arrs[0].shape)
        shape[ax] = sum(a.shape[ax] for a in arrs)
        res = Arr.from_list([0] * _prod(shape), shape, dt)
        off = 0
        for a in arrs:
            for ix in itertools.product(*[range(s) for s in a.shape]):
                jx = list(ix)
                jx[ax] += off
                res.set(jx, cast_elem(a.get(ix), dt))
            off += a.shape[ax]
        return res

    def f_hstack(self, arrs, **k):
        arrs = list(self.I.iterate(arrs))
        if any(isinstance(x, TArr) for x in arrs):
            from . import tarr
            return tarr.hstack(self, arrs)
        arrs = [self.f_atleast_1d(x) for x in arrs]
        if arrs and arrs[0].ndim == 1:
            return self.f_concatenate(arrs, 0)
        return self.f_concatenate(arrs, 1)

    def f_vstack(self, arrs, **k):
        arrs = [self.f_atleast_2d(x) for x in self.I.iterate(arrs)]
        return self.f_concatenate(arrs, 0)

    def f_column_stack(self, arrs):
        arrs = [self.as_arr(x) for x in self.I.iterate(arrs)]
        arrs = [self.m_reshape(a, (a.shape[0], 1)) if a.ndim == 1 else a for a in arrs]
        return self.f_concatenate(arrs, 1)

    def f_atleast_1d(self, x):
        a = self.as_arr(x)
        if a.ndim == 0:
            return Arr(a.store, list(a.pos), (1,), a.dtype)
        return a

    def f_atleast_2d(self, x):
        a = self.as_arr(x)
        if a.ndim == 0:
            return Arr(a.store, list(a.pos), (1, 1), a.dtype)
        if a.ndim == 1:
            return Arr(a.store, list(a.pos), (1, a.shape[0]), a.dtype)
        return a

    def f_isscalar(self, x):
        return isinstance(x, (bool, int, float, str, Sym, NpScalar, complex, bytes))

    def f_iterable(self, x):
        if isinstance(x, Arr):
            return x.ndim > 0
        if isinstance(x, (list, tuple, str, dict, set, range, GenList)):
            return True
        if isinstance(x, Obj):
            return obj_cls(x).lookup("__iter__")[0] is not None
        return False

    def f_size(self, x, axis=None):
        a = self.as_arr(x)
        if axis is None:
            return a.size if not isinstance(a, TArr) else a.shape[0]
        return a.shape[self.I.concrete_int(axis)]

    def f_ndim(self, x):
        return self.as_arr(x).ndim

    def f_shape(self, x):
        return self.as_arr(x).shape

    def map1(self, x, f, dtype=None):
        """element-wise unary function"""
        if isinstance(x, (Arr, list, tuple)):
            a = self.as_arr(x)
            dt = dtype or a.dtype
            return self.mk_arr([f(e) for e in a.elems()], a.shape, dt)
        r = f(raw(x))
        if isinstance(r, Sym):
            return Sym(r.t, r.kind, True, r.nan)
        return NpScalar(r, dtype or DT_OF_KIND[kind_of(r)])

    def f_isnan(self, x):
        if isinstance(x, TArr):      # arrays of symbolic extent carry no NaN unless they have a NaN mask (values.TArr)
            from . import tarr
            if x.nan is not None:
                m = x.nan
                return tarr.from_fn(self, x.shape, bool, lambda *idx: z3.Select(m, *idx))
            return tarr.from_fn(self, x.shape, bool, lambda *idx: z3.BoolVal(False))
        def f(e):
            if isinstance(e, Sym):
                return mk(e.nan, "bool") if e.nan is not None else False
            if isinstance(e, (int, float)):
                return isinstance(e, float) and math.isnan(e)
            raise Raised(TypeError("ufunc 'isnan' not supported for the input types"))
        return self.map1(x, f, _np.dtype(bool))

    def f_isfinite(self, x):
        def f(e):
            if isinstance(e, Sym):
                return logic_not(mk(e.nan, "bool")) if e.nan is not None else True
            return not (isinstance(e, float) and (math.isnan(e) or math.isinf(e)))
        return self.map1(x, f, _np.dtype(bool))

    def f_isinf(self, x):
        def f(e):
            if isinstance(e, Sym):
                return False
            return isinstance(e, float) and math.isinf(e)
        return self.map1(x, f, _np.dtype(bool))

    def f_abs(self, x):
        if isinstance(x, TArr):
            from . import tarr
            return tarr.absolute(self, x)
        return self.map1(x, lambda e: raw(absval(e)))

    f_absolute = f_abs

    def _floor_like(self, name):
        def f(e):
            if isinstance(e, Sym):
                if e.kind != "float":
                    return Sym(term_of(e, "float"), "float", True)
                t = z3.ToReal(z3.ToInt(e.t)) if name == "floor" else -z3.ToReal(z3.ToInt(-e.t))
                return mk(simp(t), "float", True, e.nan)
            if isinstance(e, float) and (math.isnan(e) or math.isinf(e)):
                return e
            return float(math.floor(e) if name == "floor" else math.ceil(e))
        return f

    def f_floor(self, x):
        return self.map1(x, self._floor_like("floor"), _np.dtype(float))

    def f_ceil(self, x):
        return self.map1(x, self._floor_like("ceil"), _np.dtype(float))

    def f_sqrt(self, x):
        def f(e):
            if isinstance(e, Sym):
                t = term_of(e, "float")
                s = ufun("sqrt")(t)
                self.I.ctx.assume(z3.Implies(t >= 0, z3.And(s >= 0, s * s == t)), "axiom sqrt")
                return mk(s, "float", True, e.nan)
            if isinstance(e, float) and e != e:
                return e
            if e < 0:
                return float("nan")
            return math.sqrt(e)
        return self.map1(x, f, _np.dtype(float))

    def _mono(self, name, pyf):
        def g(x):
            def f(e):
                if isinstance(e, Sym):
                    return mk(ufun(name)(term_of(e, "float")), "float", True, e.nan)
                try:
                    with _np.errstate(all="ignore"):
                        return float(getattr(_np, name)(e))
                except (ValueError, TypeError) as ex:
                    raise Raised(ex)
            return self.map1(x, f, _np.dtype(float))
        return g

    def f_log(self, x): return self._mono("log", math.log)(x)
    def f_log2(self, x): return self._mono("log2", math.log2)(x)
    def f_log10(self, x): return self._mono("log10", math.log10)(x)
    def f_exp(self, x): return self._mono("exp", math.exp)(x)
    def f_cos(self, x): return self._mono("cos", math.cos)(x)
    def f_sin(self, x): return self._mono("sin", math.sin)(x)

    def _bin_fun(self, name):
        def g(x, y):
            fn = ufun(name, 2)

            def f2(a, b):
                if isinstance(a, Sym) or isinstance(b, Sym):
                    ta, tb = term_of(a, "float"), term_of(b, "float")
                    r = fn(ta, tb)
                    if name == "hypot":     # axioms (theorems about the real function): r >= 0, r^2 = a^2 + b^2
                        self.I.ctx.assume(z3.And(r >= 0, r * r == ta * ta + tb * tb), "axiom hypot")
                    return mk(r, "float", True)
                with _np.errstate(all="ignore"):
                    return float(getattr(_np, name)(a, b))
            if isinstance(x, (Arr, list, tuple)) or isinstance(y, (Arr, list, tuple)):
                xa, ya = self.as_arr(x), self.as_arr(y)
                shape = self.broadcast_shapes(xa.shape, ya.shape)
                return self.mk_arr([f2(a, b) for a, b in zip(self.bcast_elems(xa, shape), self.bcast_elems(ya, shape))],
                                   shape, float)
            r = f2(raw(x), raw(y))
            return Sym(r.t, "float", True) if isinstance(r, Sym) else NpScalar(r, _np.float64)
        return g

    def f_hypot(self, x, y): return self._bin_fun("hypot")(x, y)
    def f_arctan2(self, x, y): return self._bin_fun("arctan2")(x, y)

    def f_power(self, x, y):
        return self.I.binop("**", self.as_arr(x) if isinstance(x, (list, tuple)) else x, y)

    def f_sum(self, x, axis=None, **k):
        if isinstance(x, GenList):
            x = x.take()
        return self.m_sum(self.as_arr(x), axis, **k)

    def f_prod(self, x, axis=None, **k):
        return self.m_prod(self.as_arr(x), axis)

    def f_cumsum(self, x, axis=None, **k):
        if isinstance(x, TArr):
            from . import tarr
            m = tarr.array_attr(self, x, "cumsum")
            return (m.f if hasattr(m, "f") else m)(axis, **k)
        return self.m_cumsum(self.as_arr(x), axis)

    def f_min(self, x, axis=None, **k):
        return self.m_min(self.as_arr(x), axis)

    def f_max(self, x, axis=None, **k):
        return self.m_max(self.as_arr(x), axis)

    f_amin = f_min
    f_amax = f_max

    def f_any(self, x, axis=None, **k):
        if isinstance(x, TArr):
            from . import tarr
            return tarr.any_(self, x)
        return self.m_any(self.as_arr(x), axis)

    def f_all(self, x, axis=None, **k):
        if isinstance(x, TArr):
            from . import tarr
            return tarr.all_(self, x)
        return self.m_all(self.as_arr(x), axis)

    def f_mean(self, x, axis=None, **k):
        return self.m_mean(self.as_arr(x), axis)

    def f_argmin(self, x, axis=None):
        return self.m_argmin(self.as_arr(x), axis)

    def f_diff(self, x, **k):
        a = self.as_arr(x)
        if a.ndim == 0:
            raise Raised(ValueError("diff requires input that is at least one dimensional"))
        if a.ndim != 1:
            raise Untranslatable("np.diff on ndim>1")
        el = a.elems()
        dt = self.result_dtype("-", a, a)
        return self.mk_arr([self.scalar_op("-", el[i + 1], el[i]) for i in range(len(el) - 1)], (max(len(el) - 1, 0),), dt)

    def f_isclose(self, a, b, rtol=1e-5, atol=1e-8, equal_nan=False):
        I = self.I
        diff = self.f_abs(I.binop("-", a, b))
        tol = I.binop("+", atol, I.binop("*", rtol, self.f_abs(b)))
        r = self._or(self._cmp("<=", diff, tol), self._cmp("==", a, b))
        # exact equality also counts (covers infinities); NaN handling
        if equal_nan:
            both = self._and(self.f_isnan(a), self.f_isnan(b))
            r = self._or(r, both)
        return r

    def _cmp(self, op, a, b):
        if isinstance(a, Arr) or isinstance(b, Arr):
            return self.binary(op, a, b)
        return compare(op, a, b)

    def _and(self, a, b):
        if isinstance(a, Arr) or isinstance(b, Arr):
            return self.binary("&", a, b)
        return logic_and(a, b)

    def _or(self, a, b):
        if isinstance(a, Arr) or isinstance(b, Arr):
            return self.binary("|", a, b)
        return logic_or(a, b)

    def f_allclose(self, a, b, rtol=1e-5, atol=1e-8, equal_nan=False):
        if isinstance(a, TArr) and isinstance(b, TArr):
            from . import tarr
            return tarr.allclose(self, a, b, rtol, atol)
        a = self.as_arr(a) if isinstance(a, (list, tuple)) else a
        b = self.as_arr(b) if isinstance(b, (list, tuple)) else b
        r = self.f_isclose(a, b, rtol, atol, equal_nan)
        if isinstance(r, Arr):
            r = self.m_all(r)
        r = raw(r)
        if isinstance(r, Sym):
            return Sym(r.t, "bool", False)
        return bool(r)

    def f_array_equal(self, a, b, **k):
        a, b = self.as_arr(a), self.as_arr(b)
        if a.shape != b.shape:
            return False
        r = raw(self.m_all(self.binary("==", a, b)))
        if isinstance(r, Sym):
            return Sym(r.t, "bool", False)
        return bool(r)

    def f_searchsorted(self, a, v, side="left", sorter=None):
        """Assumed contract: for sorted `a`, the number of elements < v (left) or <= v (right).
        The sortedness of `a` is recorded as an obligation of the caller (stub precondition)."""
        if sorter is not None:
            raise Untranslatable("searchsorted(sorter=)")
        if isinstance(a, TArr):
            from . import tarr
            return tarr.searchsorted(self, a, v, side)
        a = self.as_arr(a)
        if a.ndim != 1:
            raise Raised(ValueError("object too deep for desired array"))
        el = a.elems()
        srt = [compare("<=", el[i], el[i + 1]) for i in range(len(el) - 1)]
        if any(s is not True for s in srt):
            goal = z3.And(*[term_of(s, "bool") if isinstance(s, Sym) else z3.BoolVal(bool(s)) for s in srt])
            self.I.ctx.oblige("np.searchsorted:sorted-argument", "stub-pre", goal, {"stack": list(self.I.stack)})
        op = "<" if side == "left" else "<="
        if side not in ("left", "right"):
            raise Raised(ValueError(f"side must be 'left' or 'right' (got {side!r})"))

        def one(x):
            acc = 0
            for e in el:
                c = compare(op, e, x)
                if isinstance(c, bool):
                    acc = binop("+", acc, 1 if c else 0)
                else:
                    acc = binop("+", acc, Sym(z3.If(c.t, z3.IntVal(1), z3.IntVal(0)), "int", True))
            return raw(acc)
        if isinstance(v, (Arr, list, tuple)):
            va = self.as_arr(v)
            return self.mk_arr([one(x) for x in va.elems()], va.shape, _np.int64)
        r = one(raw(v))
        return Sym(r.t, "int", True) if isinstance(r, Sym) else NpScalar(r, _np.int64)

    def f_argsort(self, a, **k):
        """Assumed contract: a permutation p of 0..n-1 with a[p] non-decreasing (no stability promised)."""
        if isinstance(a, TArr):
            from . import tarr
            return tarr.argsort(self, a)
        a = self.as_arr(a)
        if a.ndim != 1:
            raise Untranslatable("argsort ndim>1")
        el = a.elems()
        n = len(el)
        if all(not isinstance(e, Sym) for e in el):
            order = sorted(range(n), key=lambda i: el[i])
            return Arr.from_list(order, (n,), _np.int64)
        # concrete-extent semantics: the order is decided by branching on pairwise comparisons (one path per
        # ordering); ties are resolved stably -- numpy does not promise that, but equal keys are interchangeable
        # for every clause that uses the result (assumption recorded in the evidence).
        order = []
        for i in range(n):
            pos = len(order)
            for k2, j in enumerate(order):
                c = compare("<", el[i], el[j])
                lt = c if isinstance(c, bool) else self.I.ctx.branch(c.t)
                if lt:
                    pos = k2
                    break
            order.insert(pos, i)
        return Arr.from_list(order, (n,), _np.int64)

    def f_sort(self, a, **k):
        a = self.as_arr(a)
        return self.advanced_index(a, [self.f_argsort(a)])

    def f_median(self, a, **k):
        if isinstance(a, TArr):
            return Sym(z3.Real(self.I.ctx.fresh_name("median")), "float", True)
        a = self.as_arr(a)
        el = a.elems()
        if all(not isinstance(e, Sym) for e in el):
            with _np.errstate(all="ignore"):
                return NpScalar(float(_np.median(_np.array(el, dtype=float))), _np.float64)
        # assumed: some value between min and max (exact definition not needed by any clause except `median`)
        m = z3.Real(self.I.ctx.fresh_name("median"))
        srt = self.f_sort(a).elems()
        n = len(srt)
        mid = srt[n // 2] if n % 2 else binop("/", binop("+", srt[n // 2 - 1], srt[n // 2]), 2, spec=True)
        return Sym(term_of(mid, "float"), "float", True)

    def f_percentile(self, a, q, **k):
        a = self.as_arr(a)
        qa = self.as_arr(q)
        fn = z3.Function("percentile", z3.IntSort(), z3.RealSort(), z3.RealSort())
        key = self.I.ctx.fresh_counter.setdefault("$pct", 0)
        self.I.ctx.fresh_counter["$pct"] = key + 1
        out = [Sym(fn(z3.IntVal(key), term_of(x, "float")), "float", True) for x in qa.elems()]
        return self.mk_arr(out, qa.shape, float) if qa.ndim else out[0]

    def f_nextafter(self, x, y):
        x0 = raw(x)
        if isinstance(x0, Sym):
            raise Untranslatable("nextafter of symbolic")
        return NpScalar(float(_np.nextafter(x0, raw(y))), _np.float64)

    def f_where(self, c, a=None, b=None):
        if a is None:
            raise Untranslatable("np.where(cond)")
        ca = self.as_arr(c)
        aa = self.as_arr(a) if isinstance(a, (Arr, list, tuple)) else a
        bb = self.as_arr(b) if isinstance(b, (Arr, list, tuple)) else b
        shape = ca.shape
        for x in (aa, bb):
            if isinstance(x, Arr):
                shape = self.broadcast_shapes(shape, x.shape)
        ce = self.bcast_elems(ca, shape)
        ae = self.bcast_elems(aa, shape) if isinstance(aa, Arr) else [raw(aa)] * _prod(shape)
        be = self.bcast_elems(bb, shape) if isinstance(bb, Arr) else [raw(bb)] * _prod(shape)
        dt = self.result_dtype("+", aa, bb)
        return self.mk_arr([raw(ite(c, x, y)) if not isinstance(c, bool) else (x if c else y)
                            for c, x, y in zip(ce, ae, be)], shape, dt)

    def f_meshgrid(self, *xs, indexing="xy", **k):
        if indexing != "ij":
            raise Untranslatable("meshgrid(indexing='xy')")
        arrs = [self.as_arr(x) for x in xs]
        shape = tuple(a.size for a in arrs)
        out = []
        for k2, a in enumerate(arrs):
            el = a.elems()
            vals = [el[ix[k2]] for ix in itertools.product(*[range(s) for s in shape])]
            out.append(Arr.from_list(vals, shape, a.dtype))
        return tuple(out)

    def f_ix_(self, *xs):
        out = []
        n = len(xs)
        for k, x in enumerate(xs):
            a = self.as_arr(x)
            if a.ndim != 1:
                raise Raised(ValueError("Cross index must be 1 dimensional"))
            if a.size == 0:
                a = Arr.from_list([], (0,), _np.int64)
            shape = [1] * n
            shape[k] = a.size
            out.append(Arr(a.store, list(a.pos), tuple(shape), a.dtype))
        return tuple(out)

    def f_outer(self, a, b):
        a, b = self.as_arr(a), self.as_arr(b)
        ea, eb = a.elems(), b.elems()
        dt = self.result_dtype("*", a, b)
        return self.mk_arr([self.scalar_op("*", x, y) for x in ea for y in eb], (len(ea), len(eb)), dt)

    def outer_op(self, op, a, b):
        a, b = self.as_arr(a), self.as_arr(b)
        dt = self.result_dtype(op, a, b)
        return self.mk_arr([self.scalar_op(op, x, y) for x in a.elems() for y in b.elems()], a.shape + b.shape, dt)

    def f_histogramdd(self, sample, bins, weights=None, **k):
        """Assumed contract (numpy documentation): per axis, half-open cells [e_j, e_j+1) except the last, which is
        closed; a row is counted iff every coordinate falls in a cell; result float64."""
        I = self.I
        data = self.as_arr(sample)
        if data.ndim != 2:
            raise Untranslatable("histogramdd sample ndim != 2")
        n, d = data.shape
        edges = [self.as_arr(e) for e in I.iterate(bins)]
        if len(edges) != d:
            raise Raised(ValueError("The dimension of bins must be equal to the dimension of the sample x."))
        for e in edges:
            ee = e.elems()
            for i in range(len(ee) - 1):
                c = compare("<=", ee[i], ee[i + 1])
                if c is False:
                    raise Raised(ValueError("`bins[i]` must be monotonically increasing, when an array"))
        w = self.as_arr(weights).elems() if weights is not None else [1] * n
        shape = tuple(max(e.size - 1, 0) for e in edges)
        for s, e in zip(shape, edges):
            if e.size < 2:
                raise Raised(ValueError("`bins[i]` must have at least 2 edges"))
        out = []
        rows = [[data.get((r, c)) for c in range(d)] for r in range(n)]
        for cell in itertools.product(*[range(s) for s in shape]):
            acc = 0.0
            for r in range(n):
                conds = []
                for ax, j in enumerate(cell):
                    ee = edges[ax].elems()
                    lo, hi = ee[j], ee[j + 1]
                    c1 = compare(">=", rows[r][ax], lo)
                    c2 = compare("<=" if j == shape[ax] - 1 else "<", rows[r][ax], hi)
                    conds.append(logic_and(c1, c2) if not (isinstance(c1, bool) and isinstance(c2, bool)) else (c1 and c2))
                c = True
                for x in conds:
                    c = x if c is True else (False if (c is False or x is False) else logic_and(c, x))
                if c is False:
                    continue
                wr = cast_elem(w[r], _np.float64)
                acc = self.scalar_op("+", acc, wr if c is True else raw(ite(c, wr, 0.0)))
            out.append(acc)
        return (self.mk_arr(out, shape, float), list(edges))

    def f_can_cast(self, a, b, **k):
        try:
            return bool(_np.can_cast(a, b, **k))
        except TypeError as e:
            raise Raised(e)

    def f_promote_types(self, a, b):
        try:
            return _np.promote_types(a, b)
        except TypeError as e:
            raise Raised(e)

    def f_result_type(self, *a):
        return _np.result_type(*[self.dummy(x) if not isinstance(x, (_np.dtype, type)) else x for x in a])

    def f_issubdtype(self, a, b):
        return bool(_np.issubdtype(a, b))

    def f_transpose(self, a, *x):
        return self.transpose(self.as_arr(a))

    def f_squeeze(self, a, axis=None):
        return self.m_squeeze(self.as_arr(a), axis)

    def f_maximum(self, a, b):
        return self.f_where(self._cmp(">=", a, b), a, b) if isinstance(a, Arr) or isinstance(b, Arr) else ite(compare(">=", a, b), a, b)

    def f_minimum(self, a, b):
        return self.f_where(self._cmp("<=", a, b), a, b) if isinstance(a, Arr) or isinstance(b, Arr) else ite(compare("<=", a, b), a, b)

    def f_std(self, a, **k):
        raise Untranslatable("np.std")

    def f_round(self, a, decimals=0):
        raise Untranslatable("np.round")

    def f_flip(self, a, axis=None):
        a = self.as_arr(a)
        if a.ndim != 1:
            raise Untranslatable("flip ndim>1")
        return Arr(a.store, list(reversed(a.pos)), a.shape, a.dtype)

    def f_dtype(self, *a, **k):   # shadowed by the real type in d["dtype"]; kept for completeness
        return self.call_type(_np.dtype, a, k)


class SliceArr(Arr):
    """a[lo:hi] of a 1-D concrete-extent array with *symbolic* bounds (0 <= lo, hi <= n, already normalised).
    Kept as the base elements plus the bounds; supports only sum(), size and element-wise arithmetic with scalars
    or with slices that have the same bounds."""

    __slots__ = ("lo", "hi", "vals")

    def __init__(self, base, lo, hi, vals=None, dtype=None):
        Arr.__init__(self, base.store, list(base.pos), base.shape, dtype or base.dtype)
        self.lo = lo
        self.hi = hi
        self.vals = vals      # transformed element values (None: read from the base)

    def base_elems(self):
        return self.vals if self.vals is not None else [self.store[p] for p in self.pos]

    def elems(self):
        raise Untranslatable("elements of a slice with symbolic bounds")

    @property
    def sym_len(self):
        return mk(simp(z3.If(self.hi > self.lo, self.hi - self.lo, 0)), "int")

    def masked_sum(self, np_, dt):
        acc = 0 if dt.kind in "iu" else 0.0
        for j, e in enumerate(self.base_elems()):
            inside = mk(simp(z3.And(self.lo <= j, j < self.hi)), "bool")
            zero = 0 if dt.kind in "iu" else 0.0
            if isinstance(e, bool):
                e = int(e)
            term = e if inside is True else (zero if inside is False else raw(ite(inside, e, zero)))
            acc = np_.scalar_op("+", acc, term)
        return elem_scalar(cast_elem(acc, dt), dt)

    @staticmethod
    def binary(np_, op, a, b):
        sa = a if isinstance(a, SliceArr) else None
        sb = b if isinstance(b, SliceArr) else None
        if sa is not None and sb is not None:
            if not (z3.eq(sa.lo, sb.lo) and z3.eq(sa.hi, sb.hi)):
                raise Untranslatable("arithmetic on slices with different symbolic bounds")
        for x in (a, b):
            if isinstance(x, Arr) and not isinstance(x, SliceArr):
                raise Untranslatable("arithmetic between a symbolic-bound slice and an array")
        ref = sa or sb
        dt = np_.result_dtype(op, Arr.from_list([0], (1,), sa.dtype) if sa else a, Arr.from_list([0], (1,), sb.dtype) if sb else b)
        ea = sa.base_elems() if sa else [raw(a)] * ref.shape[0]
        eb = sb.base_elems() if sb else [raw(b)] * ref.shape[0]
        vals = [cast_elem(np_.scalar_op(op, x, y), dt) for x, y in zip(ea, eb)]
        return SliceArr(ref, ref.lo, ref.hi, vals, dt)


class SymView:
    """Result of basic indexing with a symbolic integer on some axis, when the result is still an array
    (e.g. a[k, :]).  Reads are ite chains; `assign` writes through to the base."""

    def __init__(self, np_, base, per_axis, shape, elems, combos=None):
        self.np = np_
        self.base = base
        self.per_axis = per_axis
        self.shape = tuple(shape)
        self._elems = elems
        self.combos = combos

    def to_arr(self):
        return Arr.from_list(self._elems, self.shape, self.base.dtype)

    def assign(self, v):
        a = self.base
        per = self.per_axis
        if self.combos is not None:
            if isinstance(v, (Arr, list, tuple)):
                vals = self.np.bcast_elems(self.np.as_arr(v), self.shape)
            else:
                vals = [raw(v)] * _prod(self.shape)
            for combo, x in zip(self.combos, vals):
                per2 = [("int", val) if k == "c" else ("sym", val) for k, val in combo]
                self.np.sym_write(a, per2, cast_elem(x, a.dtype))
            return
        free_axes = [k for k, p in enumerate(per) if p[0] == "range"]
        if isinstance(v, (Arr, list, tuple)):
            va = self.np.as_arr(v)
            vals = self.np.bcast_elems(va, self.shape)
        else:
            vals = [raw(v)] * _prod(self.shape)
        vi = 0
        for fx in itertools.product(*[per[k][1] for k in free_axes]):
            vv = cast_elem(vals[vi], a.dtype)
            vi += 1
            per2 = []
            for k, p in enumerate(per):
                if p[0] == "range":
                    per2.append(("int", fx[free_axes.index(k)]))
                else:
                    per2.append(p)
            self.np.sym_write(a, per2, vv)


class WindowView:
    """a[lo : lo+k] of a 1-D array with symbolic offset lo and concrete length k (write-through)."""

    def __init__(self, np_, base, lo, k, vals):
        self.np = np_
        self.base = base
        self.lo = lo
        self.k = k
        self.vals = vals

    def assign(self, v):
        if isinstance(v, (Arr, list, tuple)):
            va = self.np.as_arr(v)
            vals = self.np.bcast_elems(va, (self.k,))
        else:
            vals = [raw(v)] * self.k
        for j, x in enumerate(vals):
            self.np.sym_write(self.base, [("sym", z3.simplify(self.lo + j))], cast_elem(x, self.base.dtype))


class _UFuncNS:
    def __init__(self, np_, op):
        self.np = np_
        self.op = op

    def py_getattr(self, name):
        from .interp import Builtin
        if name == "outer":
            return Builtin("ufunc.outer", lambda a, b: self.np.outer_op(self.op, a, b))
        raise Untranslatable(f"ufunc.{name}")

    def py_call(self, a, b):
        return self.np.I.binop(self.op, a, b)


class _NullCM:
    def py_enter(self):
        return None

    def py_exit(self, exc):
        return False
