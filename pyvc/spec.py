"""Spec vocabulary with two semantics: symbolic (interpreter values: Sym / Arr / Obj) and concrete
(real Python / numpy / physt objects).  Contract clauses are written once against this module and are
used for VC generation, for replaying counterexamples on the real code and for run-time monitoring.
"""
from __future__ import annotations

import math
import numpy as np
import z3

from .values import (Sym, Arr, TArr, Obj, NpScalar, GenList, And, Or, Not, Implies, Iff, If, raw, mk, simp, term_of,
                     compare, binop, absval, ite, obj_cls, obj_dict, kind_of, CURRENT, is_special_float)

__all__ = ["And", "Or", "Not", "Implies", "Iff", "If", "length", "elems", "forall", "exists", "total", "sumr",
           "same", "isnan", "is_none", "typename", "attr", "has", "shares_memory", "is_obj", "unchanged",
           "absolute", "shape_of", "dtype_of", "aslist", "sq", "is_sym_world", "fmin", "fmax", "floor", "ceil",
           "is_int_valued", "same_seq", "trunc", "isarray", "count"]


def is_sym_world(x):
    return isinstance(x, (Sym, Arr, TArr, Obj))


def _r(v):
    v = raw(v)
    if isinstance(v, np.generic):
        v = v.item()
        if isinstance(v, np.floating):      # np.longdouble has no Python equivalent
            v = float(v)
    return v


def isarray(x):
    return isinstance(x, (Arr, TArr, np.ndarray))


def length(x):
    if isinstance(x, (Arr, TArr)):
        return x.shape[0]
    return len(x)


def shape_of(x):
    return tuple(x.shape)


def dtype_of(x):
    return np.dtype(x.dtype)


def elems(x):
    """flat list of element values"""
    if isinstance(x, Arr):
        return [(_r(e)) for e in x.elems()]
    if isinstance(x, np.ndarray):
        return [_r(e) for e in x.ravel()]
    if isinstance(x, (list, tuple)):
        out = []
        for y in x:
            out.extend(elems(y) if isinstance(y, (list, tuple, Arr, np.ndarray)) else [_r(y)])
        return out
    return [_r(x)]


def aslist(x):
    """nested list view of an array (rows)"""
    if isinstance(x, Arr):
        return x.nested()
    if isinstance(x, np.ndarray):
        return x.tolist()
    return list(x)


def forall(lo, hi, f):
    if isinstance(_r(lo), int) and isinstance(_r(hi), int):
        return And(*[f(k) for k in range(_r(lo), _r(hi))]) if _r(hi) > _r(lo) else True
    k = z3.Int(CURRENT["interp"].ctx.fresh_name("k"))
    body = f(Sym(k, "int"))
    bt = term_of(body, "bool") if not isinstance(body, bool) else z3.BoolVal(body)
    return mk(z3.ForAll([k], z3.Implies(z3.And(term_of(lo, "int") <= k, k < term_of(hi, "int")), bt)), "bool")


def exists(lo, hi, f):
    if isinstance(_r(lo), int) and isinstance(_r(hi), int):
        return Or(*[f(k) for k in range(_r(lo), _r(hi))]) if _r(hi) > _r(lo) else False
    raise NotImplementedError("exists over a symbolic range")


def _add(a, b):
    a, b = _r(a), _r(b)
    if isinstance(a, Sym) or isinstance(b, Sym):
        return _r(binop("+", a, b))
    return a + b


def total(x):
    """sum of all elements (mathematical sum)"""
    acc = 0
    for e in elems(x):
        if isinstance(e, bool):
            e = int(e)
        acc = _add(acc, e)
    return acc


def total_t(x):
    """sum of all elements of a 1-D array of symbolic extent (the recursive spec function), or of a concrete array"""
    if isinstance(x, TArr):
        from .tarr import sum_fn, kind_of_dtype
        kd = kind_of_dtype(x.dtype)
        return mk(sum_fn(kd)(x.term, z3.IntVal(0), term_of(raw(x.shape[0]), "int")), kd)
    return total(x)


def sumr(x, lo, hi):
    es = elems(x)
    acc = 0
    for e in es[lo:hi]:
        acc = _add(acc, e)
    return acc


def count(conds):
    """number of true conditions (int term)"""
    acc = 0
    for c in conds:
        c = _r(c)
        if isinstance(c, Sym):
            acc = _add(acc, Sym(z3.If(term_of(c, "bool"), z3.IntVal(1), z3.IntVal(0)), "int"))
        else:
            acc = _add(acc, 1 if c else 0)
    return acc


def sq(x):
    x = _r(x)
    if isinstance(x, Sym):
        return _r(binop("*", x, x))
    return x * x


def absolute(x):
    x = _r(x)
    if isinstance(x, Sym):
        return _r(absval(x))
    return abs(x)


def fmin(a, b):
    a, b = _r(a), _r(b)
    if isinstance(a, Sym) or isinstance(b, Sym):
        c = compare("<=", a, b)
        return a if c is True else (b if c is False else _r(ite(c, a, b)))
    return min(a, b)


def fmax(a, b):
    a, b = _r(a), _r(b)
    if isinstance(a, Sym) or isinstance(b, Sym):
        c = compare(">=", a, b)
        return a if c is True else (b if c is False else _r(ite(c, a, b)))
    return max(a, b)


def floor(x):
    x = _r(x)
    if isinstance(x, Sym):
        if x.kind == "int":
            return x
        return mk(simp(z3.ToInt(x.t)), "int")
    return math.floor(x)


def ceil(x):
    x = _r(x)
    if isinstance(x, Sym):
        if x.kind == "int":
            return x
        return mk(simp(-z3.ToInt(-x.t)), "int")
    return math.ceil(x)


def trunc(x):
    x = _r(x)
    if isinstance(x, Sym):
        from .values import trunc_term
        return mk(simp(trunc_term(x.t)), "int") if x.kind == "float" else x
    return math.trunc(x)


def is_int_valued(x):
    x = _r(x)
    if isinstance(x, Sym):
        if x.kind != "float":
            return True
        return mk(simp(z3.ToReal(z3.ToInt(x.t)) == x.t), "bool")
    if isinstance(x, float):
        return x == x and not math.isinf(x) and x == math.floor(x)
    return True


def isnan(x):
    x = _r(x)
    if isinstance(x, Sym):
        return mk(x.nan, "bool") if x.nan is not None else False
    if isinstance(x, float):
        return math.isnan(x)
    return False


def is_none(x):
    return x is None


def _scalar_same(a, b):
    a, b = _r(a), _r(b)
    if isinstance(a, Sym) or isinstance(b, Sym):
        na, nb = isnan(a), isnan(b)
        if isinstance(a, float) and math.isnan(a):
            return nb
        if isinstance(b, float) and math.isnan(b):
            return na
        if not isinstance(a, (int, float, Sym)) or not isinstance(b, (int, float, Sym)):
            return False
        if na is False and nb is False:
            return compare("==", a, b)
        return Or(And(na, nb), And(Not(na), Not(nb), compare("==", Sym(a.t, a.kind) if isinstance(a, Sym) else a,
                                                           Sym(b.t, b.kind) if isinstance(b, Sym) else b)))
    if isinstance(a, float) and isinstance(b, float) and math.isnan(a) and math.isnan(b):
        return True
    if isinstance(a, (int, float)) and isinstance(b, (int, float)):
        return a == b
    return a is b or a == b


def same_tarr(a, b):
    if not (isinstance(a, TArr) and isinstance(b, TArr)) or len(a.shape) != len(b.shape):
        return False
    I = CURRENT["interp"]
    idx = [z3.Int(I.ctx.fresh_name("k")) for _ in a.shape]
    bound = z3.And(*[z3.And(i >= 0, i < term_of(raw(n), "int")) for i, n in zip(idx, a.shape)])
    shp = z3.And(*[term_of(raw(p), "int") == term_of(raw(q), "int") for p, q in zip(a.shape, b.shape)])
    return mk(z3.And(shp, z3.ForAll(idx, z3.Implies(bound, z3.Select(a.term, *idx) == z3.Select(b.term, *idx)))), "bool")


def same(a, b):
    """deep, NaN-aware equality of values (numbers, arrays, lists, dicts, None, strings)."""
    if isinstance(a, TArr) or isinstance(b, TArr):
        return same_tarr(a, b)
    if isarray(a) or isarray(b):
        if not (isarray(a) and isarray(b)):
            return False
        if shape_of(a) != shape_of(b):
            return False
        return And(*[_scalar_same(x, y) for x, y in zip(elems(a), elems(b))]) if elems(a) else True
    if isinstance(a, (list, tuple)) and isinstance(b, (list, tuple)):
        if len(a) != len(b):
            return False
        return And(*[same(x, y) for x, y in zip(a, b)]) if len(a) else True
    if isinstance(a, dict) and isinstance(b, dict):
        if set(a) != set(b):
            return False
        return And(*[same(a[k], b[k]) for k in a]) if a else True
    if a is None or b is None:
        return a is None and b is None
    if isinstance(a, (str, bytes)) or isinstance(b, (str, bytes)):
        return a == b
    if isinstance(_r(a), (int, float, Sym, bool)) and isinstance(_r(b), (int, float, Sym, bool)):
        return _scalar_same(a, b)
    if isinstance(a, np.dtype) or isinstance(b, np.dtype):
        return a == b
    if isinstance(a, Obj) and isinstance(b, Obj):
        if obj_cls(a) is not obj_cls(b):
            return False
        return same(obj_dict(a), obj_dict(b))
    if is_obj(a) and is_obj(b) and not isinstance(a, Obj) and not isinstance(b, Obj):
        if type(a) is not type(b):
            return False
        return same(vars(a), vars(b))
    return a is b or bool(a == b)


same_seq = same


def unchanged(old, new):
    return same(old, new)


def is_obj(x):
    if isinstance(x, Obj):
        return True
    return hasattr(x, "__dict__") and not isinstance(x, (type, np.ndarray, np.generic))


def typename(x):
    if isinstance(x, Obj):
        return obj_cls(x).name
    if isinstance(x, (Arr, TArr)):
        return "ndarray"
    if isinstance(x, Sym):
        if x.np:
            return {"int": "int64", "float": "float64", "bool": "bool"}[x.kind]
        return x.kind
    if isinstance(x, NpScalar):
        return x.dtype.type.__name__
    return type(x).__name__


def attr(o, name):
    """raw instance attribute (no property evaluation)"""
    if isinstance(o, Obj):
        return obj_dict(o)[name]
    return o.__dict__[name] if name in getattr(o, "__dict__", {}) else getattr(o, name)


def has(o, name):
    if isinstance(o, Obj):
        return name in obj_dict(o)
    return name in getattr(o, "__dict__", {})


def shares_memory(a, b):
    if isinstance(a, Arr) and isinstance(b, Arr):
        return a.store is b.store and bool(set(a.pos) & set(b.pos))
    if isinstance(a, np.ndarray) and isinstance(b, np.ndarray):
        return bool(np.shares_memory(a, b))
    return False


# ---- transcendental functions: uninterpreted symbols (symbolic world) / numpy (concrete world)

def _ufun_app(name, *args):
    from .values import ufun
    if any(isinstance(_r(x), Sym) for x in args):
        return mk(ufun(name, len(args))(*[term_of(_r(x), "float") for x in args]), "float")
    with np.errstate(all="ignore"):
        return float(getattr(np, name)(*[float(_r(x)) for x in args]))


def hypot(a, b):
    return _ufun_app("hypot", a, b)


def arctan2(a, b):
    return _ufun_app("arctan2", a, b)


def cos(a):
    return _ufun_app("cos", a)


def mod_2pi(a):
    """a % (2*pi) exactly as Python/numpy compute it on floats (symbolic: a - 2pi*floor(a/2pi))"""
    a = _r(a)
    tp = 2 * math.pi
    if isinstance(a, Sym):
        return _r(binop("%", a, tp, spec=True))
    return float(np.float64(a) % tp)


__all__ += ["hypot", "arctan2", "cos", "mod_2pi"]


def close(a, b, rel=1e-9, abs_=1e-12):
    """a == b as a statement about real numbers: exact in the symbolic world; in the concrete (binary64) world equality up
    to rounding, used by clauses whose right-hand side involves a division or a square root computed by the code."""
    a, b = _r(a), _r(b)
    if isinstance(a, Sym) or isinstance(b, Sym):
        return compare("==", a, b)
    if isinstance(a, float) and isinstance(b, float) and (math.isnan(a) or math.isnan(b)):
        return math.isnan(a) and math.isnan(b)
    if a == b:
        return True
    try:
        return math.isclose(a, b, rel_tol=rel, abs_tol=abs_)
    except (TypeError, OverflowError):
        return False


__all__ += ["close", "total_t"]


def div(a, b):
    """total division for clauses (concrete world: nan when the divisor is zero, so that a guarded clause can be evaluated eagerly)"""
    a, b = _r(a), _r(b)
    if isinstance(a, Sym) or isinstance(b, Sym):
        return _r(binop("/", a, b, spec=True))
    if b == 0:
        return float("nan")
    return a / b


__all__ += ["div"]


# ---- weighted counts over arrays of symbolic extent (pyvc.induct); concrete arrays: computed directly ------------------
def _warr(W, D, square):
    """z3 array term of the weights (None: all 1), optionally squared"""
    from .tarr import kind_of_dtype
    if W is None:
        return z3.K(z3.IntSort(), z3.IntVal(1)), "int"
    kd = kind_of_dtype(W.dtype)
    t = W.term
    if square:
        from .tarr import square_term
        t = square_term(t)
    return t, kd


def wsum(D, W, lo, hi, closed, square=False):
    """sum of the weights W[i] (1 if W is None; squared if square) of the entries with lo <= D[i] < hi (<= hi if closed)"""
    if isinstance(D, TArr):
        from .induct import wsum_fn
        wt, kd = _warr(W, D, square)
        c = _r(closed)
        ct = term_of(c, "bool") if isinstance(c, Sym) else z3.BoolVal(bool(c))
        return mk(wsum_fn(kd)(D.term, wt, term_of(_r(lo), "float"), term_of(_r(hi), "float"), ct, term_of(raw(D.shape[0]), "int")), kd)
    acc = 0
    for i, d in enumerate(np.asarray(D).ravel().tolist()):
        w = 1 if W is None else np.asarray(W).ravel()[i].item()
        if lo <= d and (d <= hi if closed else d < hi):
            acc += w * w if square else w
    return acc


def wside(which, D, W, x):
    """sum of the weights of the entries below / above x"""
    if isinstance(D, TArr):
        from .induct import side_fn
        wt, kd = _warr(W, D, False)
        return mk(side_fn(kd, which)(D.term, wt, term_of(_r(x), "float"), term_of(raw(D.shape[0]), "int")), kd)
    acc = 0
    for i, d in enumerate(np.asarray(D).ravel().tolist()):
        w = 1 if W is None else np.asarray(W).ravel()[i].item()
        if (d < x) if which == "below" else (d > x):
            acc += w
    return acc
__all__ += ["wsum", "wside"]


def sumr_t(x, lo, hi):
    """sum of x[lo:hi] for a 1-D array of symbolic extent (recursive spec function) or a concrete array"""
    if isinstance(x, TArr):
        from .tarr import sum_fn, kind_of_dtype
        kd = kind_of_dtype(x.dtype)
        return mk(sum_fn(kd)(x.term, term_of(_r(lo), "int"), term_of(_r(hi), "int")), kd)
    return total(np.asarray(x).ravel()[int(lo):int(hi)])


__all__ += ["sumr_t"]
