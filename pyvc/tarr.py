"""numpy stubs, semantics S: arrays with *symbolic* extents as z3 array terms (Lambda / Store).
Only the operations the proved (unbounded) contracts need are provided; everything else is Untranslatable."""
from __future__ import annotations

import numpy as _np
import z3

from .values import (Sym, Arr, TArr, NpScalar, Untranslatable, Raised, raw, kind_of, term_of, mk, simp, compare,
                     DT_OF_KIND, concretize)

_SORT = {"f": z3.RealSort, "i": z3.IntSort, "u": z3.IntSort, "b": z3.BoolSort}


def kind_of_dtype(dt):
    return {"f": "float", "i": "int", "u": "int", "b": "bool"}[_np.dtype(dt).kind]


def fresh_index(np_, n=1):
    ctx = np_.I.ctx
    return [z3.Int(ctx.fresh_name("i")) for _ in range(n)]


def from_fn(np_, shape, dtype, f):
    """TArr whose element at index terms (i,...) is f(i,...) (a z3 term of the dtype's sort)."""
    idx = fresh_index(np_, len(shape))
    body = f(*idx)
    return TArr(z3.Lambda(idx, body), shape, dtype)


def elem_term(a, idx, want=None):
    t = z3.Select(a.term, *idx)
    k = kind_of_dtype(a.dtype)
    if want and want != k:
        return term_of(Sym(t, k), want)
    return t


def arange(np_, n, dtype=None):
    dt = _np.dtype(dtype or _np.int64)
    nt = term_of(n, "int")
    if dt.kind == "f":
        return from_fn(np_, (Sym(nt, "int"),), dt, lambda i: z3.ToReal(i))
    return from_fn(np_, (Sym(nt, "int"),), dt, lambda i: i)


def _scalar_term_op(op, ta, tb, k):
    if op == "+":
        return ta + tb
    if op == "-":
        return ta - tb
    if op == "*":
        return ta * tb
    if op == "/":
        return ta / tb
    if op == "**":
        e = z3.simplify(tb)
        if (z3.is_int_value(e) and e.as_long() == 2) or (z3.is_rational_value(e) and e.numerator_as_long() == 2 and e.denominator_as_long() == 1):
            return ta * ta
        raise Untranslatable("power of a symbolic-extent array (only **2)")
    if op in ("<", "<=", ">", ">=", "==", "!="):
        return {"<": ta < tb, "<=": ta <= tb, ">": ta > tb, ">=": ta >= tb, "==": ta == tb, "!=": ta != tb}[op]
    raise Untranslatable(f"symbolic-extent array operator {op}")


def binary(np_, op, a, b):
    dt = np_.result_dtype(op, _dummy(a), _dummy(b))
    ta = a if isinstance(a, TArr) else None
    tb = b if isinstance(b, TArr) else None
    if isinstance(a, Arr) or isinstance(b, Arr):
        raise Untranslatable("mixing concrete-extent and symbolic-extent arrays")
    shape = (ta or tb).shape
    if ta is not None and tb is not None:
        if len(ta.shape) != len(tb.shape):
            raise Untranslatable("broadcasting of symbolic-extent arrays")
        for x, y in zip(ta.shape, tb.shape):
            c = compare("==", x, y)
            if c is not True:
                if not np_.I.ctx.branch(term_of(c, "bool") if isinstance(c, Sym) else z3.BoolVal(c)):
                    raise Raised(ValueError("operands could not be broadcast together"))
    cmp = op in ("<", "<=", ">", ">=", "==", "!=")
    k = "float" if (op == "/" or "f" in (_kd(a), _kd(b))) else "int"
    if op == "/":
        # numpy: x/0 gives inf/nan; not representable -> demand a non-zero divisor on this path
        pass

    def f(*idx):
        xa = elem_term(ta, idx, k) if ta is not None else term_of(raw(a), k)
        xb = elem_term(tb, idx, k) if tb is not None else term_of(raw(b), k)
        return _scalar_term_op(op, xa, xb, k)
    res = from_fn(np_, shape, dt, f)
    # element-wise operation on a slice base[lo:hi] (with a scalar, or with the same slice of another array): still a slice
    so_a = ta.slice_of if ta is not None else None
    so_b = tb.slice_of if tb is not None else None
    if (so_a or so_b) and not (ta is not None and tb is not None and not (so_a and so_b and z3.eq(so_a[1], so_b[1]) and z3.eq(so_a[2], so_b[2]))):
        ref = so_a or so_b
        j = fresh_index(np_, 1)[0]
        xa = (z3.Select(so_a[0], j) if so_a else term_of(raw(a), k)) if ta is not None else term_of(raw(a), k)
        xb = (z3.Select(so_b[0], j) if so_b else term_of(raw(b), k)) if tb is not None else term_of(raw(b), k)
        if ta is not None and so_a and ta.dtype.kind != "f" and k == "float":
            xa = z3.ToReal(xa)
        if tb is not None and so_b and tb.dtype.kind != "f" and k == "float":
            xb = z3.ToReal(xb)
        if op == "**" and so_a and ta.dtype.kind == res.dtype.kind:
            res.slice_of = (square_term(so_a[0]), ref[1], ref[2])      # one canonical term for "the squares of this array"
        else:
            res.slice_of = (z3.Lambda([j], _scalar_term_op(op, xa, xb, k)), ref[1], ref[2])
    return res


def _kd(x):
    if isinstance(x, TArr):
        return x.dtype.kind
    return {"float": "f", "int": "i", "bool": "b"}[kind_of(raw(x))]


def _dummy(x):
    if isinstance(x, TArr):
        return Arr.from_list([0], (1,), x.dtype)
    return x


def unary(np_, op, a):
    if op == "-":
        return from_fn(np_, a.shape, a.dtype, lambda *idx: -elem_term(a, idx))
    if op == "~" and a.dtype.kind == "b":
        return from_fn(np_, a.shape, a.dtype, lambda *idx: z3.Not(elem_term(a, idx)))
    raise Untranslatable(f"unary {op} on symbolic-extent array")


def inplace(np_, op, a, b):
    """a op= b: the element-wise result written back into a (same_kind casting rule asked from the installed numpy)"""
    res = binary(np_, op, a, b)
    if not isinstance(res, TArr) or len(res.shape) != len(a.shape):
        raise Untranslatable("in-place operator on symbolic-extent array (result of another shape)")
    if not _np.can_cast(res.dtype, a.dtype, casting="same_kind"):
        raise Raised(TypeError(f"Cannot cast ufunc output from {res.dtype!r} to {a.dtype!r} with casting rule 'same_kind'"))
    ctx = np_.I.ctx
    same = z3.And(*[term_of(raw(p), "int") == term_of(raw(q), "int") for p, q in zip(a.shape, res.shape)])
    if not ctx.branch(same):
        raise Raised(ValueError("operands could not be broadcast together (in-place)"))
    if res.dtype.kind == a.dtype.kind:
        a.term = res.term
    elif a.dtype.kind == "f" and res.dtype.kind in "iu":
        idx = fresh_index(np_, a.ndim)
        a.term = z3.Lambda(idx, z3.ToReal(z3.Select(res.term, *idx)))
    else:
        raise Untranslatable("in-place operator on symbolic-extent array (narrowing cast)")
    a.slice_of = None
    return a


def norm_int_index(np_, i, n):
    """bounds-checked, normalised index term for extent n (both may be symbolic)"""
    it = term_of(raw(i), "int")
    nt = term_of(raw(n), "int")
    ok = z3.And(it >= -nt, it < nt)
    if not np_.I.ctx.branch(ok):
        raise Raised(IndexError("index out of bounds"))
    if z3.is_int_value(z3.simplify(it)):
        return z3.simplify(z3.If(it < 0, it + nt, it))
    if np_.I.ctx.entails(it >= 0):
        return z3.simplify(it)
    if np_.I.ctx.entails(it < 0):
        return z3.simplify(it + nt)
    return z3.simplify(z3.If(it < 0, it + nt, it))


def getitem(np_, a, idx):
    if isinstance(idx, TArr) and idx.dtype.kind == "b":
        # a[mask]: only the mask that provably selects everything (NaN-free data under dropna) is within the subset
        if a.ndim != 1 or idx.ndim != 1:
            raise Untranslatable("boolean mask on an n-d array of symbolic extent")
        ctx = np_.I.ctx
        n, m = term_of(raw(a.shape[0]), "int"), term_of(raw(idx.shape[0]), "int")
        i = z3.Int(ctx.fresh_name("i"))
        if ctx.entails(z3.And(n == m, z3.ForAll([i], z3.Implies(z3.And(i >= 0, i < n), z3.Select(idx.term, i))))):
            return TArr(a.term, a.shape, a.dtype)
        raise Untranslatable("boolean mask on an array of symbolic extent that is not provably all True")
    if isinstance(idx, TArr):
        # a[index array] (1-D): element i is a[idx[i]]  (indices are assumed in range: they come from argsort)
        if a.ndim != 1 or idx.ndim != 1 or idx.dtype.kind not in "iu":
            raise Untranslatable("advanced indexing of symbolic-extent arrays (only 1-D integer index arrays)")
        # a named array with its definition as an assumption (a definitional extension): keeps later obligations free of lambdas
        ctx = np_.I.ctx
        r = z3.Const(ctx.fresh_name("gather"), a.term.sort())
        i = z3.Int(ctx.fresh_name("i"))
        n = term_of(raw(idx.shape[0]), "int")
        ctx.assume(z3.ForAll([i], z3.Implies(z3.And(i >= 0, i < n), z3.Select(r, i) == z3.Select(a.term, z3.Select(idx.term, i)))),
                   "definition of array[index array]")
        res = TArr(r, idx.shape, a.dtype)
        res.gather_of = (a.term, idx.term)
        return res
    if not isinstance(idx, tuple):
        idx = (idx,)
    if any(x is None for x in idx):
        # np.newaxis: index without it, then insert axes of extent 1
        plain = tuple(x for x in idx if x is not None)
        inner = getitem(np_, a, plain) if plain else a
        if not isinstance(inner, TArr):
            raise Untranslatable("np.newaxis on a scalar selection of a symbolic-extent array")
        # position of every new axis in the result: count the slices (kept axes) before it
        layout, kept = [], 0
        for x in idx:
            if x is None:
                layout.append(None)
            elif isinstance(x, slice) or x is Ellipsis:
                layout.append(kept)
                kept += 1
        while kept < inner.ndim:
            layout.append(kept)
            kept += 1
        shape = tuple(1 if k is None else inner.shape[k] for k in layout)

        def f(*jdx):
            return z3.Select(inner.term, *[j for j, k in zip(jdx, layout) if k is not None])
        return from_fn(np_, shape, inner.dtype, f)
    if any(x is Ellipsis for x in idx):
        k = idx.index(Ellipsis)
        idx = idx[:k] + (slice(None),) * (a.ndim - (len(idx) - 1)) + idx[k + 1:]
    if len(idx) > a.ndim:
        raise Raised(IndexError("too many indices for array"))
    fixed = []
    out_axes = []
    for k in range(a.ndim):
        x = idx[k] if k < len(idx) else slice(None)
        if isinstance(x, slice):
            if x.step is not None and raw(x.step) != 1:
                raise Untranslatable("strided slice of symbolic-extent array")
            n = term_of(raw(a.shape[k]), "int")
            lo = _slice_bound(np_, x.start, n, 0)
            hi = _slice_bound(np_, x.stop, n, n)
            length = z3.simplify(z3.If(hi > lo, hi - lo, 0))
            fixed.append(("slice", lo))
            out_axes.append(mk(length, "int"))
        elif isinstance(raw(x), (int, Sym)) and not isinstance(raw(x), bool):
            fixed.append(("int", norm_int_index(np_, x, a.shape[k])))
        else:
            raise Untranslatable(f"index of type {type(x).__name__} on symbolic-extent array")
    if not out_axes:
        t = z3.simplify(z3.Select(a._term, *[f[1] for f in fixed]))
        if a.nan is not None:
            return mk(t, kind_of_dtype(a.dtype), True, z3.simplify(z3.Select(a.nan, *[f[1] for f in fixed])))
        return mk(t, kind_of_dtype(a.dtype), True)
    if a.ndim == 1 and isinstance(idx[0], TArr):
        pass

    def f(*jdx):
        it = iter(jdx)
        full = []
        for kind, v in fixed:
            full.append(v if kind == "int" else next(it) + v)
        return z3.Select(a.term, *full)
    res = from_fn(np_, tuple(out_axes), a.dtype, f)
    if a.ndim == 1 and fixed[0][0] == "slice":
        lo = fixed[0][1]
        base, off = (a.slice_of[0], a.slice_of[1]) if a.slice_of else (a.term, z3.IntVal(0))
        res.slice_of = (base, z3.simplify(off + lo), z3.simplify(off + lo + term_of(raw(out_axes[0]), "int")))
    return res


def _slice_bound(np_, v, n, default):
    if v is None:
        return default if z3.is_expr(default) else z3.IntVal(default)
    t = term_of(raw(v), "int")
    if not z3.is_int_value(z3.simplify(t)) and np_.I.ctx.entails(z3.And(t >= 0, t <= n)):
        return z3.simplify(t)
    t = z3.If(t < 0, t + n, t)
    return z3.simplify(z3.If(t < 0, 0, z3.If(t > n, n, t)))


def _nan_flag(v):
    """z3 Bool: the scalar v is NaN"""
    import math
    r = raw(v)
    if isinstance(r, Sym):
        return r.nan if r.nan is not None else z3.BoolVal(False)
    return z3.BoolVal(isinstance(r, float) and math.isnan(r))


def _mask_or_false(np_, a):
    if a.nan is not None:
        return a.nan
    idx = fresh_index(np_, a.ndim)
    return z3.Lambda(idx, z3.BoolVal(False))


def setitem(np_, a, idx, v):
    if not isinstance(idx, tuple):
        idx = (idx,)
    full = lambda x: isinstance(x, slice) and x.start is None and x.stop is None and x.step is None
    if a.dtype.kind == "f" and not isinstance(v, (TArr, Arr, list, tuple)) and all(full(x) for x in idx) and len(idx) <= a.ndim:
        # a[:] = scalar (every element); a NaN scalar sets the NaN mask of every element
        fl = z3.simplify(_nan_flag(v))
        jdx = fresh_index(np_, a.ndim)
        if z3.is_true(fl):
            a.nan = z3.Lambda(jdx, z3.BoolVal(True))
        elif z3.is_false(fl):
            a._term = z3.Lambda(jdx, term_of(raw(v), "float"))
            a.nan = None
        else:
            raise Untranslatable("a[:] = scalar that may or may not be NaN")
        a.slice_of = None
        return
    if a.ndim == 2 and len(idx) == 2 and not isinstance(idx[0], slice) and full(idx[1]):
        # a[i, :] = row (1-D array of the row length, or a scalar)
        it = norm_int_index(np_, idx[0], a.shape[0])
        k = kind_of_dtype(a.dtype)
        i, j = fresh_index(np_, 2)
        if isinstance(v, TArr):
            if v.ndim != 1:
                raise Untranslatable("row assignment of an n-d value")
            if not np_.I.ctx.branch(term_of(raw(v.shape[0]), "int") == term_of(raw(a.shape[1]), "int")):
                raise Raised(ValueError("could not broadcast input array into the row"))
            val, vnan = elem_term(v, (j,), k), z3.BoolVal(False)      # v.term: a row that may hold NaN is outside the subset
        else:
            val, vnan = term_of(raw(v), k), _nan_flag(v)
        m = raw(a.shape[1])
        if isinstance(m, int) and m <= 8:
            # a row of concrete length: one Store per column (keeps Lambda terms out of the quantified obligations)
            for c in range(m):
                vc_ = z3.simplify(z3.substitute(val, (j, z3.IntVal(c))))
                if a.nan is not None or not z3.is_false(z3.simplify(vnan)):
                    a.nan = z3.Store(_mask_or_false(np_, a), it, z3.IntVal(c), vnan)
                a._term = z3.Store(a._term, it, z3.IntVal(c), vc_)
            a.slice_of = None
            return
        if a.nan is not None or not z3.is_false(z3.simplify(vnan)):
            a.nan = z3.Lambda([i, j], z3.If(i == it, vnan, z3.Select(_mask_or_false(np_, a), i, j)))
        a._term = z3.Lambda([i, j], z3.If(i == it, val, z3.Select(a._term, i, j)))
        a.slice_of = None
        return
    if a.ndim == 1 and len(idx) == 1 and isinstance(idx[0], slice):
        # a[lo:hi] = v for a 1-D array: v an array of the slice's length or a scalar
        x = idx[0]
        if x.step is not None and raw(x.step) != 1:
            raise Untranslatable("strided slice assignment on symbolic-extent array")
        n = term_of(raw(a.shape[0]), "int")
        lo = _slice_bound(np_, x.start, n, 0)
        hi = _slice_bound(np_, x.stop, n, n)
        k = kind_of_dtype(a.dtype)
        j = fresh_index(np_, 1)[0]
        if isinstance(v, TArr):
            if v.ndim != 1:
                raise Untranslatable("slice assignment of an n-d value")
            ln = term_of(raw(v.shape[0]), "int")
            if not np_.I.ctx.branch(z3.If(hi > lo, hi - lo, 0) == ln):
                raise Raised(ValueError("could not broadcast input array into the slice"))
            val = elem_term(v, (j - lo,), k)
        else:
            val = term_of(raw(v), k)
        a.term = z3.Lambda([j], z3.If(z3.And(j >= lo, j < hi), val, z3.Select(a.term, j)))
        a.slice_of = None
        return
    if len(idx) != a.ndim or any(isinstance(x, slice) for x in idx):
        raise Untranslatable("slice assignment on symbolic-extent array")
    ts = [norm_int_index(np_, x, a.shape[k]) for k, x in enumerate(idx)]
    k = kind_of_dtype(a.dtype)
    if a.dtype.kind == "f":
        fl = z3.simplify(_nan_flag(v))
        if a.nan is not None or not z3.is_false(fl):
            a.nan = z3.Store(_mask_or_false(np_, a), *ts, fl)
    a._term = z3.Store(a._term, *ts, term_of(raw(v), k))


_SUMS = {}
_SQUARES = {}


def square_axiom(t):
    """the defining property of square_term(t) (given to the solver only where a hint asks for it)"""
    sq = square_term(t)
    j = z3.Int("%sq!j")
    return z3.ForAll([j], z3.Select(sq, j) == z3.Select(t, j) * z3.Select(t, j))


def square_term(t):
    """the array of the squares of the 1-D array term t: an opaque array constant (the same one every time it is asked
    for).  Its defining property  sq[j] = t[j]*t[j]  is deliberately not given to the solver: the obligations that mention it
    (sums of squared weights over slices) hold for any array, and the product would drag in nonlinear arithmetic."""
    key = t.get_id()
    if z3.is_K(t):       # a constant array: its squares are the constant array of the square
        c = t.arg(0)
        return z3.K(z3.IntSort(), z3.simplify(c * c))
    if key not in _SQUARES:
        _SQUARES[key] = (t, z3.Const(f"%squares!{len(_SQUARES)}", t.sort()))
    return _SQUARES[key][1]



def sum_fn(kind):
    """sumr(A, lo, hi) = sum of A[j] for lo <= j < hi: recursive spec function with its two defining axioms."""
    if kind not in _SUMS:
        s = z3.RealSort() if kind == "float" else z3.IntSort()
        A = z3.ArraySort(z3.IntSort(), s)
        f = z3.RecFunction(f"sumr_{kind}", A, z3.IntSort(), z3.IntSort(), s)
        a = z3.Const("A", A)
        lo, hi = z3.Ints("lo hi")
        zero = z3.RealVal(0) if kind == "float" else z3.IntVal(0)
        z3.RecAddDefinition(f, [a, lo, hi], z3.If(hi <= lo, zero, f(a, lo, hi - 1) + z3.Select(a, hi - 1)))
        _SUMS[kind] = f
        from . import induct
        induct.register(f, lambda g, A, lo, hi: z3.If(hi <= lo, zero, g(A, lo, hi - 1) + z3.Select(A, hi - 1)))
    return _SUMS[kind]


def array_attr(np_, a, name):
    from .interp import Builtin
    if name == "shape":
        return a.shape
    if name == "ndim":
        return a.ndim
    if name == "dtype":
        return a.dtype
    if name == "size":
        if a.ndim == 1:
            return a.shape[0]
        raise Untranslatable("size of n-d symbolic-extent array")
    if name == "copy":
        return Builtin("copy", lambda *x, **k: TArr(a.term, a.shape, a.dtype))
    if name == "T":
        if a.ndim < 2:
            return TArr(a.term, a.shape, a.dtype)
        if a.ndim != 2:
            raise Untranslatable("transpose of an n-d symbolic-extent array")
        return from_fn(np_, (a.shape[1], a.shape[0]), a.dtype, lambda i, j: z3.Select(a.term, j, i))
    if name == "astype":
        def astype(dt, **k):
            dt = _np.dtype(dt)
            if dt.kind == a.dtype.kind:
                return TArr(a.term, a.shape, dt)
            if dt.kind == "f" and a.dtype.kind in "iu":
                return from_fn(np_, a.shape, dt, lambda *idx: z3.ToReal(elem_term(a, idx)))
            raise Untranslatable("astype on symbolic-extent array")
        return Builtin("astype", astype)
    if name == "any":
        return Builtin("any", lambda *x, **k: any_(np_, a))
    if name == "all":
        return Builtin("all", lambda *x, **k: all_(np_, a))
    if name == "sum":
        def sum_(axis=None, **k):
            if a.ndim == 2 and axis is not None:
                # marginal of a 2-D array: element k is the recursive sum of row / column k
                ax = raw(axis)
                ax = tuple(ax) if isinstance(ax, (tuple, list)) else (ax,)
                if len(ax) == 0:
                    return TArr(a.term, a.shape, a.dtype)
                if len(ax) != 1 or not isinstance(raw(ax[0]), int):
                    raise Untranslatable("sum over several axes of a symbolic-extent array")
                d = raw(ax[0]) % 2
                kd = kind_of_dtype(a.dtype)
                if kd == "bool":
                    raise Untranslatable("sum of bool symbolic-extent array")
                m = term_of(raw(a.shape[d]), "int")
                ctx = np_.I.ctx
                j = z3.Int(ctx.fresh_name("j"))

                def marginal(kk):
                    line = z3.Lambda([j], z3.Select(a.term, j, kk) if d == 0 else z3.Select(a.term, kk, j))
                    return sum_fn(kd)(line, z3.IntVal(0), m)
                return from_fn(np_, (a.shape[1 - d],), a.dtype, marginal)
            if a.ndim != 1:
                raise Untranslatable("sum of n-d symbolic-extent array")
            kd = kind_of_dtype(a.dtype)
            if kd == "bool":
                raise Untranslatable("sum of bool symbolic-extent array")
            if a.slice_of is not None:
                base, lo, hi = a.slice_of
                t = sum_fn(kd)(base, lo, hi)
            else:
                t = sum_fn(kd)(a.term, z3.IntVal(0), term_of(raw(a.shape[0]), "int"))
            return mk(t, kd, True)
        return Builtin("sum", sum_)
    if name == "cumsum":
        def cumsum(axis=None, dtype=None, **k):
            # running sums: element k is the recursive sum of the first k + 1 elements (accumulator type asked from numpy)
            if a.ndim == 2 and isinstance(raw(axis), int) and not isinstance(raw(axis), bool):
                # along one axis of a 2-D array: element (i, j) is the recursive sum of the first i + 1 (j + 1) elements of column j (row i)
                d = raw(axis) % 2
                kd = kind_of_dtype(a.dtype)
                if kd == "bool":
                    raise Untranslatable("cumsum of bool symbolic-extent array")
                dt = _np.ones((1, 1), a.dtype).cumsum(axis=d, dtype=None if dtype is None else _np.dtype(dtype)).dtype
                if kind_of_dtype(dt) != kd:
                    raise Untranslatable("cumsum into another kind of dtype on a symbolic-extent array")
                t = z3.Int(np_.I.ctx.fresh_name("t"))
                src = a.term

                def running(i, j):
                    line = z3.Lambda([t], z3.Select(src, t, j) if d == 0 else z3.Select(src, i, t))
                    return sum_fn(kd)(line, z3.IntVal(0), (i if d == 0 else j) + 1)
                return from_fn(np_, a.shape, dt, running)
            if a.ndim != 1:
                raise Untranslatable("cumsum of n-d symbolic-extent array")
            kd = kind_of_dtype(a.dtype)
            if kd == "bool":
                raise Untranslatable("cumsum of bool symbolic-extent array")
            dt = _np.ones(1, a.dtype).cumsum(dtype=None if dtype is None else _np.dtype(dtype)).dtype
            if kind_of_dtype(dt) != kd:
                raise Untranslatable("cumsum into another kind of dtype on a symbolic-extent array")
            return from_fn(np_, a.shape, dt, lambda kk: sum_fn(kd)(a.term, z3.IntVal(0), kk + 1))
        return Builtin("cumsum", cumsum)
    if name in ("max", "min"):
        def extremum(*x, **k):
            if a.ndim != 1:
                raise Untranslatable("max/min of n-d symbolic-extent array")
            ctx = np_.I.ctx
            n = term_of(raw(a.shape[0]), "int")
            if not ctx.branch(n > 0):
                raise Raised(ValueError(f"zero-size array to reduction operation {name}imum which has no identity"))
            kd = kind_of_dtype(a.dtype)
            m = (z3.Real if kd == "float" else z3.Int)(ctx.fresh_name(name))
            i, j = z3.Int(ctx.fresh_name("i")), z3.Int(ctx.fresh_name("j"))
            x = z3.Select(a.term, i)
            ctx.assume(z3.And(z3.ForAll([i], z3.Implies(z3.And(i >= 0, i < n), x <= m if name == "max" else x >= m)),
                              z3.Exists([j], z3.And(j >= 0, j < n, z3.Select(a.term, j) == m))), "stub " + name)
            return Sym(m, kd, True)
        return Builtin(name, extremum)
    if name == "flatten":
        if a.ndim == 1:
            return Builtin("flatten", lambda *x: TArr(a.term, a.shape, a.dtype))
    if not hasattr(_np.ndarray, name):
        raise Raised(AttributeError(f"'numpy.ndarray' object has no attribute '{name}'"))
    raise Untranslatable(f"ndarray.{name} on symbolic-extent array")


def _bound(a, idx):
    return z3.And(*[z3.And(i >= 0, i < term_of(raw(n), "int")) for i, n in zip(idx, a.shape)])


def any_(np_, a):
    idx = fresh_index(np_, a.ndim)
    body = elem_term(a, idx) if a.dtype.kind == "b" else elem_term(a, idx) != 0
    return mk(z3.Exists(idx, z3.And(_bound(a, idx), body)), "bool", True)


def all_(np_, a):
    idx = fresh_index(np_, a.ndim)
    body = elem_term(a, idx) if a.dtype.kind == "b" else elem_term(a, idx) != 0
    return mk(z3.ForAll(idx, z3.Implies(_bound(a, idx), body)), "bool", True)


def absolute(np_, a):
    return from_fn(np_, a.shape, a.dtype, lambda *idx: z3.If(elem_term(a, idx) >= 0, elem_term(a, idx), -elem_term(a, idx)))


def allclose(np_, a, b, rtol, atol):
    if len(a.shape) != len(b.shape):
        return False
    idx = fresh_index(np_, a.ndim)
    x, y = elem_term(a, idx, "float"), elem_term(b, idx, "float")
    d = z3.If(x - y >= 0, x - y, y - x)
    ay = z3.If(y >= 0, y, -y)
    body = d <= real_lit(atol) + real_lit(rtol) * ay
    same_shape = z3.And(*[term_of(raw(p), "int") == term_of(raw(q), "int") for p, q in zip(a.shape, b.shape)])
    return mk(z3.And(same_shape, z3.ForAll(idx, z3.Implies(_bound(a, idx), body))), "bool", False)


def real_lit(x):
    from .values import real_val
    return real_val(x)


def searchsorted(np_, a, v, side="left"):
    """Assumed contract for a 1-D array of symbolic extent: the insertion point r with 0 <= r <= n,
    left: a[i] < v for i < r and v <= a[i] for i >= r;  right: a[i] <= v for i < r and v < a[i] for i >= r.
    The (adjacent) sortedness of `a` is an obligation of the caller."""
    if a.ndim != 1:
        raise Raised(ValueError("object too deep for desired array"))
    ctx = np_.I.ctx
    n = term_of(raw(a.shape[0]), "int")
    i = z3.Int(ctx.fresh_name("i"))
    ctx.oblige("np.searchsorted:sorted-argument", "stub-pre",
               z3.ForAll([i], z3.Implies(z3.And(i >= 0, i < n - 1), z3.Select(a.term, i) <= z3.Select(a.term, i + 1))),
               {"stack": list(np_.I.stack)})
    r = z3.Int(ctx.fresh_name("searchsorted"))
    vt = term_of(raw(v), "float" if a.dtype.kind == "f" else None)
    j = z3.Int(ctx.fresh_name("j"))
    x = z3.Select(a.term, j)
    if side == "left":
        before, after = x < vt, vt <= x
    elif side == "right":
        before, after = x <= vt, vt < x
    else:
        raise Raised(ValueError(f"side must be 'left' or 'right' (got {side!r})"))
    ctx.assume(z3.And(r >= 0, r <= n,
                      z3.ForAll([j], z3.Implies(z3.And(j >= 0, j < r), before)),
                      z3.ForAll([j], z3.Implies(z3.And(j >= r, j < n), after))), "stub searchsorted")
    return Sym(r, "int", True)


def zeros(np_, shape, dtype):
    dt = _np.dtype(dtype)
    zero = z3.RealVal(0) if dt.kind == "f" else (z3.IntVal(0) if dt.kind in "iu" else z3.BoolVal(False))
    if len(tuple(shape)) == 1:
        return TArr(z3.K(z3.IntSort(), zero), tuple(shape), dt)
    return from_fn(np_, tuple(shape), dt, lambda *idx: zero)


def ones_like(np_, a, dtype=None):
    dt = _np.dtype(dtype or a.dtype)
    one = z3.RealVal(1) if dt.kind == "f" else z3.IntVal(1)
    if a.ndim == 1:
        return TArr(z3.K(z3.IntSort(), one), a.shape, dt)
    return from_fn(np_, a.shape, dt, lambda *idx: one)


def argsort(np_, a):
    """Assumed contract: p is a permutation of 0..n-1 (range + injectivity) and a[p[i]] is non-decreasing."""
    if a.ndim != 1:
        raise Untranslatable("argsort of n-d symbolic-extent array")
    ctx = np_.I.ctx
    n = term_of(raw(a.shape[0]), "int")
    p = z3.Array(ctx.fresh_name("argsort"), z3.IntSort(), z3.IntSort())
    i, j = z3.Int(ctx.fresh_name("i")), z3.Int(ctx.fresh_name("j"))
    ctx.assume(z3.ForAll([i], z3.Implies(z3.And(i >= 0, i < n), z3.And(z3.Select(p, i) >= 0, z3.Select(p, i) < n))), "stub argsort: range")
    ctx.assume(z3.ForAll([i, j], z3.Implies(z3.And(i >= 0, i < j, j < n), z3.Select(p, i) != z3.Select(p, j))), "stub argsort: injective")
    ctx.assume(z3.ForAll([i], z3.Implies(z3.And(i >= 0, i < n - 1),
                                         z3.Select(a.term, z3.Select(p, i)) <= z3.Select(a.term, z3.Select(p, i + 1)))), "stub argsort: sorted")
    r = TArr(p, a.shape, _np.int64)
    return r


def hstack(np_, arrs):
    """np.hstack of 2-D arrays with the same (symbolic) row count and CONCRETE column counts"""
    if not arrs or any(not isinstance(x, TArr) or x.ndim != 2 or not isinstance(raw(x.shape[1]), int) for x in arrs):
        raise Untranslatable("hstack of symbolic-extent arrays (only 2-D blocks with concrete column counts)")
    ctx = np_.I.ctx
    n0 = term_of(raw(arrs[0].shape[0]), "int")
    for x in arrs[1:]:
        if not ctx.branch(term_of(raw(x.shape[0]), "int") == n0):
            raise Raised(ValueError("all the input array dimensions except for the concatenation axis must match exactly"))
    dt = _np.result_type(*[x.dtype for x in arrs])
    k = kind_of_dtype(dt)
    offs, total = [], 0
    for x in arrs:
        offs.append(total)
        total += raw(x.shape[1])

    def f(i, j):
        t = None
        for x, off in reversed(list(zip(arrs, offs))):
            e = elem_term(x, (i, j - off), k)
            t = e if t is None else z3.If(j < off + raw(x.shape[1]), e, t)
        return t
    return from_fn(np_, (arrs[0].shape[0], total), dt, f)
