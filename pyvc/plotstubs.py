"""Draw-log stubs for the plotting back ends (C20).  ASSUMED: the drawing primitives of matplotlib / plotly draw what
their arguments say; Normalize(clip=True) followed by a colormap is monotone in the value.

`DrawAxes` is an ordinary Python class that records every call; it is used in BOTH worlds: the interpreter calls it
through py_getattr, the real plotting code (replay / cross-check) through __getattr__.
"""
from __future__ import annotations

import numpy as _np

from .values import Sym, Arr, Obj, NpScalar, Untranslatable, Raised, raw, compare, binop, ite


class DrawFigure:
    def __init__(self, log):
        self.log = log

    def _rec(self, name, a, k):
        self.log.append(("figure." + name, a, k))
        return None

    def __getattr__(self, name):
        if name.startswith("__"):
            raise AttributeError(name)
        return lambda *a, **k: self._rec(name, a, k)

    def py_getattr(self, name):
        from .interp import Builtin
        return Builtin("figure." + name, lambda *a, **k: self._rec(name, a, k))

    def py_snapshot(self, I, memo):
        return self


class DrawAxes:
    """records (primitive, args, kwargs); get_xlim/get_ylim return the limits given at construction"""

    def __init__(self, xlim=(0.0, 1.0), ylim=(0.0, 1.0)):
        self.log = []
        self._xlim = tuple(xlim)
        self._ylim = tuple(ylim)
        self.figure = DrawFigure(self.log)
        self.transAxes = "transAxes"
        self.name = "rectilinear"

    def _rec(self, name, a, k):
        self.log.append((name, a, k))
        if name == "get_xlim":
            return self._xlim
        if name == "get_ylim":
            return self._ylim
        if name == "get_figure":
            return self.figure
        if name == "set_xlim" and a:
            self._xlim = tuple(a[:2]) if len(a) >= 2 else tuple(a[0])
        if name == "set_ylim" and a:
            self._ylim = tuple(a[0]) if len(a) == 1 else tuple(a[:2])
        return None

    def calls(self, name):
        return [(a, k) for n, a, k in self.log if n == name]

    def __getattr__(self, name):
        if name.startswith("__"):
            raise AttributeError(name)
        return lambda *a, **k: self._rec(name, a, k)

    def py_getattr(self, name):
        from .interp import Builtin
        if name in ("figure", "transAxes", "name", "log"):
            return object.__getattribute__(self, name)
        return Builtin("ax." + name, lambda *a, **k: self._rec(name, a, k))

    def py_snapshot(self, I, memo):
        return self


class Record:
    """go.Bar(...), patches.Rectangle(...), ...: a record of the constructor arguments (attributes assignable)"""

    def __init__(self, kind, args, kwargs):
        object.__setattr__(self, "kind", kind)
        object.__setattr__(self, "args", args)
        object.__setattr__(self, "kw", dict(kwargs))
        object.__setattr__(self, "sub", {})

    def py_getattr(self, name):
        if name in self.kw:
            return self.kw[name]
        if name not in self.sub:
            self.sub[name] = Record(self.kind + "." + name, (), {})
        return self.sub[name]

    def py_setattr(self, name, v):
        self.kw[name] = v

    def py_snapshot(self, I, memo):
        return self

    def __repr__(self):
        return f"<{self.kind} {list(self.kw)}>"


class Norm:
    """colors.Normalize(vmin, vmax, clip=True): (x - vmin) / (vmax - vmin) clipped to [0, 1] -- monotone"""

    def __init__(self, I, vmin, vmax):
        self.I, self.vmin, self.vmax = I, vmin, vmax

    def one(self, x):
        I = self.I
        span = I.binop("-", self.vmax, self.vmin)
        z = compare("==", raw(span), 0)
        if z is True:
            return 0.0
        t = I.binop("/", I.binop("-", x, self.vmin), span)
        lo = compare("<", raw(t), 0)
        hi = compare(">", raw(t), 1)
        t = t if lo is False else (0.0 if lo is True else ite(lo, 0.0, t))
        t = t if hi is False else (1.0 if hi is True else ite(hi, 1.0, t))
        return raw(t)

    def py_call(self, data):
        if isinstance(data, Arr):
            return self.I.np.mk_arr([self.one(x) for x in data.elems()], data.shape, float)
        return self.one(raw(data))

    def py_snapshot(self, I, memo):
        return self


class Color:
    def __init__(self, level):
        self.level = level      # the normalised value the colour was looked up with

    def __repr__(self):
        return f"<color {self.level}>"


class Cmap:
    def __init__(self, name):
        self.name = name

    def py_call(self, x, *a, **k):
        if isinstance(x, Arr):
            return [Color(v) for v in x.elems()]
        return Color(raw(x))

    def py_snapshot(self, I, memo):
        return self


def make_plot_modules(I):
    from .interp import ModuleNS, Builtin

    def rec(kind):
        return Builtin(kind, lambda *a, **k: Record(kind, a, k))

    mods = {}
    rc = {"figure.figsize": (6.4, 4.8), "image.cmap": "viridis"}

    def get_cmap(name=None, *a):
        if not isinstance(name, str) or name in ("", "no-such-cmap"):
            raise Raised(ValueError(f"{name!r} is not a valid value for cmap"))
        return Cmap(name)

    def no_axes(*a, **k):
        raise Untranslatable("creation of a matplotlib figure (pass ax=...)")

    plt = ModuleNS("matplotlib.pyplot", {"get_cmap": Builtin("get_cmap", get_cmap), "subplots": Builtin("subplots", no_axes),
                                         "figure": Builtin("figure", no_axes)})
    colors = ModuleNS("matplotlib.colors", {"Normalize": Builtin("Normalize", lambda vmin=None, vmax=None, clip=False: Norm(I, vmin, vmax)),
                                            "LogNorm": Builtin("LogNorm", lambda *a, **k: (_ for _ in ()).throw(Untranslatable("LogNorm"))),
                                            "ListedColormap": Builtin("ListedColormap", lambda cols, **k: Cmap("listed")),
                                            "Colormap": object})
    patches = ModuleNS("matplotlib.patches", {"Rectangle": rec("Rectangle"), "PathPatch": rec("PathPatch"), "Patch": object})
    cm = ModuleNS("matplotlib.cm", {"ScalarMappable": rec("ScalarMappable")})
    path = ModuleNS("matplotlib.path", {"Path": rec("Path")})
    mpl = ModuleNS("matplotlib", {"rcParams": rc, "cm": cm, "colors": colors, "patches": patches, "path": path, "pyplot": plt})
    mods.update({"matplotlib": mpl, "matplotlib.pyplot": plt, "matplotlib.colors": colors, "matplotlib.patches": patches,
                 "matplotlib.cm": cm, "matplotlib.path": path,
                 "mpl_toolkits": ModuleNS("mpl_toolkits", {}), "mpl_toolkits.mplot3d": ModuleNS("mpl_toolkits.mplot3d", {}),
                 "mpl_toolkits.mplot3d.art3d": ModuleNS("mpl_toolkits.mplot3d.art3d", {"Poly3DCollection": rec("Poly3DCollection")})})

    go = ModuleNS("plotly.graph_objs", {k: rec(k) for k in ("Bar", "Scatter", "Heatmap", "Layout", "Figure")})
    go.d["layout"] = ModuleNS("plotly.graph_objs.layout", {"XAxis": rec("XAxis")})
    pyo = ModuleNS("plotly.offline", {"plot": Builtin("pyo.plot", lambda *a, **k: None)})
    mods.update({"plotly": ModuleNS("plotly", {"graph_objs": go, "offline": pyo}), "plotly.graph_objs": go, "plotly.offline": pyo})

    import re as _re

    def re_match(pattern, string, *a):
        m = _re.match(pattern, string)
        return m
    mods["re"] = ModuleNS("re", {"match": Builtin("re.match", re_match)})
    import datetime as _dt
    mods["datetime"] = ModuleNS("datetime", {"timedelta": _dt.timedelta})
    return mods
