"""PyVC symbolic interpreter over the *real* AST of /repo/src/physt.

Path exploration is by re-execution along a recorded decision prefix (no state copying): every run
starts from fresh (identically named) symbolic inputs; at a branch whose condition is not decided by
the path condition both arms are scheduled.
"""
from __future__ import annotations

import ast
import builtins as _builtins
import hashlib
import math
import os
import sys
import numpy as _np
import z3

from .values import (Sym, Arr, TArr, Obj, NpScalar, GenList, Untranslatable, Raised, ZeroDiv, obj_cls, obj_dict, SymRange, SymList, SymGen,
                     raw, is_sym, kind_of, term_of, mk, simp, binop, unop, compare, absval, ite,
                     logic_and, logic_or, logic_not, is_np_scalar, is_special_float, concretize, nan_of,
                     real_val, trunc_term)

REPO_SRC = os.environ.get("PYVC_REPO_SRC", "/repo/src")


# ----------------------------------------------------------------------------------------------
# control-flow signals

class _Return(Exception):
    def __init__(self, v):
        self.v = v


class _Break(Exception):
    pass


class _Continue(Exception):
    pass


class PathInfeasible(Exception):
    """Raised when an `assume` makes the current path condition unsatisfiable."""


class Exhausted(Exception):
    pass


class PathEnd(Exception):
    """The current path ends here without reaching the function's exit (after the inductive step of a loop)."""


class SymEnum:
    """enumerate(<array of symbolic extent>)"""

    def __init__(self, arr, start=0):
        self.arr = arr
        self.start = start


# ----------------------------------------------------------------------------------------------
# path context

def _conjuncts(t):
    if z3.is_and(t):
        out = []
        for ch in t.children():
            out += _conjuncts(ch)
        return out
    return [t]


def _has_quantifier(t, seen=None):
    seen = set() if seen is None else seen
    if t.get_id() in seen:
        return False
    seen.add(t.get_id())
    if z3.is_quantifier(t):
        return True
    return any(_has_quantifier(ch, seen) for ch in t.children())


class Ctx:
    def __init__(self, decisions=(), timeout_ms=5000, max_branches=400, qf_probe=False):
        self.decisions = list(decisions)
        self.trace = []
        self.pc = []
        self.pending = []          # alternative decision prefixes discovered on this run
        self.solver = z3.Solver()
        self.solver.set("timeout", timeout_ms)
        self.assumed = []          # (label, term) facts assumed (callee ensures, stub ensures, invariants)
        self.obligations = []      # (name, kind, hyps(list of terms), goal term, meta)
        self.max_branches = max_branches
        self.notes = []
        self.fresh_counter = {}
        self.probe_unknown = 0
        self.qf_probe = qf_probe

    def fresh_name(self, base):
        """names of bound / auxiliary variables: the '%' prefix keeps them apart from the contracts' input symbols
        (a Lambda / quantifier over a variable named like an input would capture it)"""
        n = self.fresh_counter.get(base, 0)
        self.fresh_counter[base] = n + 1
        return f"%{base}!{n}"

    def add(self, term, label=None):
        term = z3.simplify(term) if not isinstance(term, bool) else z3.BoolVal(term)
        if z3.is_true(term):
            return
        self.pc.append(term)
        if self.qf_probe:
            # the probe solver (feasibility of branch arms, term simplification) only sees the quantifier-free conjuncts: it
            # over-approximates feasibility, so no path is lost; obligations are always solved under the full path condition
            for cj in _conjuncts(term):
                if not _has_quantifier(cj):
                    self.solver.add(cj)
        else:
            self.solver.add(term)
        if label:
            self.assumed.append((label, term))

    def feasible(self, term):
        self.solver.push()
        self.solver.add(term)
        r = self.solver.check()
        self.solver.pop()
        if r == z3.unknown:
            self.probe_unknown += 1
        return r != z3.unsat

    def entails(self, term):
        """the path condition implies term (a timeout counts as 'not known'): only used to simplify terms"""
        term = z3.simplify(term)
        if z3.is_true(term):
            return True
        self.solver.push()
        self.solver.add(z3.Not(term))
        r = self.solver.check()
        self.solver.pop()
        return r == z3.unsat

    def entails_full(self, term, timeout_ms=10000):
        """the FULL path condition (quantified conjuncts included, which the quantifier-free probe solver does not see) implies
        term; a timeout counts as 'not known'"""
        s = z3.Solver()
        s.set("timeout", timeout_ms)
        s.add(*self.pc)
        s.add(z3.Not(term))
        return s.check() == z3.unsat

    def branch(self, cond, where=None):
        """cond: z3 Bool.  Returns the Python bool taken on this run."""
        cond = z3.simplify(cond)
        if z3.is_true(cond):
            return True
        if z3.is_false(cond):
            return False
        i = len(self.trace)
        if i < len(self.decisions):
            take = self.decisions[i]
        else:
            if i >= self.max_branches:
                raise Untranslatable("too many symbolic branches on one path")
            ft = self.feasible(cond)
            ff = self.feasible(z3.Not(cond))
            if ft and ff:
                take = True
                self.pending.append(self.trace + [False])
            elif ft:
                take = True
            elif ff:
                take = False
            else:
                raise PathInfeasible()
        self.trace.append(take)
        self.add(cond if take else z3.Not(cond))
        return take

    def fork(self):
        """unconditional two-way choice point (used to split a loop into its inductive step and its continuation)"""
        i = len(self.trace)
        if i < len(self.decisions):
            take = self.decisions[i]
        else:
            take = True
            self.pending.append(self.trace + [False])
        self.trace.append(take)
        return take

    def assume(self, cond, label="assume"):
        if isinstance(cond, bool):
            if not cond:
                raise PathInfeasible()
            return
        if isinstance(cond, Sym):
            cond = term_of(cond, "bool")
        self.add(cond, label)

    def oblige(self, name, kind, goal, meta=None):
        """Record a proof obligation: pc ==> goal."""
        if isinstance(goal, Sym):
            goal = term_of(goal, "bool")
        elif isinstance(goal, (bool, _np.bool_)):
            goal = z3.BoolVal(bool(goal))
        self.obligations.append((name, kind, list(self.pc), goal, meta or {}))


# ----------------------------------------------------------------------------------------------
# interpreter-level Python objects

class RepoFunction:
    def __init__(self, interp, node, globs, closure, module, qualname, defcls=None):
        self.interp = interp
        self.node = node
        self.globs = globs
        self.closure = closure
        self.module = module
        self.qualname = qualname
        self.defcls = defcls
        self.name = getattr(node, "name", "<lambda>")
        self.defaults = []
        self.kw_defaults = {}
        self.attrs = {}
        self.is_generator = any(isinstance(n, (ast.Yield, ast.YieldFrom)) for n in _walk_fn(node))
        self.wrapped = None

    @property
    def key(self):
        return f"{self.module}:{self.qualname}"

    def __repr__(self):
        return f"<repo function {self.key}>"


def _walk_fn(node):
    """ast.walk restricted to the function's own body (nested defs/lambdas excluded)."""
    todo = list(node.body) if isinstance(node.body, list) else [node.body]
    while todo:
        n = todo.pop()
        yield n
        for c in ast.iter_child_nodes(n):
            if isinstance(c, (ast.FunctionDef, ast.AsyncFunctionDef, ast.Lambda, ast.ClassDef)):
                continue
            todo.append(c)


class BoundMethod:
    def __init__(self, fn, self_):
        self.fn = fn
        self.self_ = self_

    def __repr__(self):
        return f"<bound {self.fn!r}>"


class Builtin:
    def __init__(self, name, f):
        self.name = name
        self.f = f

    def __call__(self, *a, **k):
        try:
            return self.f(*a, **k)
        except TypeError as e:
            # a call shape the stub does not provide (extra keyword, more positionals): outside the subset, not a crash
            msg = str(e)
            tb, depth = e.__traceback__, 0
            while tb is not None:
                tb, depth = tb.tb_next, depth + 1
            if depth <= 3 and any(s in msg for s in ("unexpected keyword argument", "positional argument", "required positional",
                                                     "required keyword-only", "multiple values for")):
                raise Untranslatable(f"{self.name}: call shape not provided by the stub ({msg})")
            raise

    def __repr__(self):
        return f"<builtin {self.name}>"


class PropertyObj:
    def __init__(self, fget=None, fset=None):
        self.fget = fget
        self.fset = fset


class ClassMethodObj:
    def __init__(self, fn):
        self.fn = fn


class StaticMethodObj:
    def __init__(self, fn):
        self.fn = fn


class RepoClass:
    def __init__(self, interp, name, module, bases, ns):
        self.interp = interp
        self.name = name
        self.module = module
        self.bases = bases
        self.ns = ns
        self.mro = self._c3()
        self.subclasses = []
        for b in bases:
            if isinstance(b, RepoClass):
                b.subclasses.append(self)
        self.dataclass = None

    def _c3(self):
        seqs = []
        for b in self.bases:
            if isinstance(b, RepoClass):
                seqs.append(list(b.mro))
            else:
                seqs.append([b])
        seqs.append(list(self.bases))
        res = [self]
        while True:
            seqs = [s for s in seqs if s]
            if not seqs:
                return res
            for s in seqs:
                cand = s[0]
                if not any(cand in t[1:] for t in seqs):
                    break
            else:
                raise Untranslatable("inconsistent MRO")
            res.append(cand)
            for s in seqs:
                if s and s[0] is cand:
                    del s[0]

    def lookup(self, name, after=None):
        started = after is None
        for c in self.mro:
            if not started:
                if c is after:
                    started = True
                continue
            if isinstance(c, RepoClass) and name in c.ns:
                return c.ns[name], c
        return None, None

    def issubclass(self, other):
        return other in self.mro

    @property
    def key(self):
        return f"{self.module}:{self.name}"

    def __repr__(self):
        return f"<repo class {self.module}.{self.name}>"


class ModuleNS:
    def __init__(self, name, d=None):
        self.name = name
        self.d = d if d is not None else {}

    def __repr__(self):
        return f"<module {self.name}>"


class SingleDispatch:
    def __init__(self, default):
        self.default = default
        self.registry = []   # (type-ish, fn)
        self.name = default.name

    def __repr__(self):
        return f"<singledispatch {self.default.key}>"


class ContextManagerFn:
    """A generator function decorated with contextlib.contextmanager."""

    def __init__(self, fn):
        self.fn = fn


class ContextManagerCall:
    def __init__(self, fn, args, kwargs):
        self.fn = fn
        self.args = args
        self.kwargs = kwargs


class SuperProxy:
    def __init__(self, cls, obj):
        self.cls = cls
        self.obj = obj


class Env:
    __slots__ = ("vars", "parent", "globs", "fn", "selfobj", "yield_cb", "cls_ns")

    def __init__(self, globs, parent=None, fn=None):
        self.vars = {}
        self.parent = parent
        self.globs = globs
        self.fn = fn
        self.selfobj = None
        self.yield_cb = None
        self.cls_ns = None


class NpTypeMarker:
    """np.ndarray / np.integer / ... for isinstance and issubdtype."""

    def __init__(self, name, real):
        self.name = name
        self.real = real


# ----------------------------------------------------------------------------------------------

class Interp:
    def __init__(self, repo_src=None):
        self.repo_src = repo_src or REPO_SRC
        self.modules = {}
        self.sources = {}
        self.functions = {}      # "module:qualname" -> RepoFunction
        self.classes = {}        # "module:Class" -> RepoClass
        self.ctx = Ctx()
        self.call_depth = 0
        self.call_hook = None    # f(interp, fn, args, kwargs) -> NotImplemented | value
        self.loop_hook = None    # f(interp, fn_key, ordinal, node, env, iterable) -> NotImplemented | None
        self.stack = []
        self.executed = set()
        self.ctxvars = []
        self.loop_specs = {}
        self.extent_cap = None
        self.stub_log = set()
        self.warn_log = []
        self.draw_log = []
        from . import npstubs, pystubs, values
        values.CURRENT["interp"] = self
        self.environ = {}
        self.np = npstubs.make_numpy(self)
        self.stubmods = pystubs.make_modules(self)
        self.builtins = pystubs.make_builtins(self)
        from . import libstubs, plotstubs
        self.stubmods.update(libstubs.make_lib_modules(self))
        self.stubmods.update(plotstubs.make_plot_modules(self))

    def reset_state(self):
        """module-level mutable state of the interpreted program is reset before every path"""
        from .pystubs import CtxVar, _MISSING
        for v in self.ctxvars:
            v.value = _MISSING
            v.writes = 0
        self.stack = []
        self.call_depth = 0
        self.warn_log = []
        self.draw_log = []

    # ------------------------------------------------------------------ modules
    def module_path(self, name):
        p = os.path.join(self.repo_src, *name.split("."))
        if os.path.isdir(p):
            return os.path.join(p, "__init__.py")
        return p + ".py"

    def is_repo_module(self, name):
        return name.split(".")[0] == "physt" and os.path.exists(self.module_path(name))

    def load_module(self, name):
        if name in self.modules:
            return self.modules[name]
        path = self.module_path(name)
        src = open(path).read()
        self.sources[name] = (path, src)
        tree = ast.parse(src, path)
        mod = ModuleNS(name)
        mod.d["__name__"] = name
        mod.d["__file__"] = path
        self.modules[name] = mod
        env = Env(mod.d)
        env.vars = mod.d
        saved = self.ctx
        try:
            self.exec_block(tree.body, env, modname=name)
        finally:
            self.ctx = saved
        return mod

    def import_module(self, name, env_modname=None):
        if name in self.stubmods:
            return self.stubmods[name]
        if name == "numpy":
            return self.np
        if self.is_repo_module(name):
            return self.load_module(name)
        raise Raised(ImportError(f"No module named {name!r} (not modelled)"))

    def find(self, key):
        """'physt.binnings:FixedWidthBinning.copy' -> RepoFunction (loads the module)."""
        modname, qual = key.split(":")
        self.load_module("physt")      # as in CPython, importing any physt module runs the package __init__ (registers the compat adapters)
        self.load_module(modname)
        if key in self.functions:
            return self.functions[key]
        raise KeyError(key)

    def find_class(self, key):
        modname, qual = key.split(":")
        self.load_module("physt")
        self.load_module(modname)
        return self.classes[key]

    def source_segment(self, fn):
        path, src = self.sources[fn.module]
        return ast.get_source_segment(src, fn.node)

    # ------------------------------------------------------------------ statements
    def exec_block(self, stmts, env, modname=None):
        for s in stmts:
            self.exec_stmt(s, env)

    def exec_stmt(self, s, env):
        m = getattr(self, "s_" + type(s).__name__, None)
        if m is None:
            raise Untranslatable(f"statement {type(s).__name__} at line {s.lineno}")
        return m(s, env)

    def s_Expr(self, s, env):
        if isinstance(s.value, ast.Constant):
            return  # docstring
        self.eval(s.value, env)

    def s_Pass(self, s, env):
        pass

    def s_Import(self, s, env):
        for a in s.names:
            mod = self.import_module(a.name)
            if a.asname:
                env.vars[a.asname] = mod
            else:
                top = a.name.split(".")[0]
                env.vars[top] = self.import_module(top) if "." in a.name else mod

    def s_ImportFrom(self, s, env):
        if s.module == "__future__":
            return
        modname = s.module or ""
        if s.level:
            cur = env.globs.get("__name__", "")
            path = env.globs.get("__file__", "")
            pkg = cur if path.endswith("__init__.py") else cur.rsplit(".", 1)[0]
            for _ in range(s.level - 1):
                pkg = pkg.rsplit(".", 1)[0]
            modname = pkg + ("." + modname if modname else "")
        for a in s.names:
            sub = modname + "." + a.name
            if modname.split(".")[0] == "physt" and self.is_repo_module(sub):
                val = self.load_module(sub)
            else:
                mod = self.import_module(modname)
                if a.name == "*":
                    d = mod.d
                    names = d.get("__all__") or [k for k in d if not k.startswith("_")]
                    for k in names:
                        env.vars[k] = d[k]
                    continue
                if a.name not in mod.d:
                    raise Raised(ImportError(f"cannot import name {a.name!r} from {modname!r}"))
                val = mod.d[a.name]
            env.vars[a.asname or a.name] = val

    def s_FunctionDef(self, s, env):
        fn = self.make_function(s, env)
        val = fn
        for dec in reversed(s.decorator_list):
            d = self.eval(dec, env)
            val = self.call(d, [val], {})
        self.bind_name(s.name, val, env)

    def make_function(self, s, env, name=None):
        modname = env.globs.get("__name__", "?")
        if env.cls_ns is not None:
            qual = env.cls_ns["__qualname__"] + "." + s.name
        elif env.fn is not None:
            qual = env.fn.qualname + ".<locals>." + getattr(s, "name", "<lambda>")
        else:
            qual = getattr(s, "name", "<lambda>")
        closure = env if env.fn is not None else None
        fn = RepoFunction(self, s, env.globs, closure, modname, qual)
        a = s.args
        fn.defaults = [self.eval(d, env) for d in a.defaults]
        fn.kw_defaults = {k.arg: self.eval(d, env) for k, d in zip(a.kwonlyargs, a.kw_defaults) if d is not None}
        if isinstance(s, ast.FunctionDef):
            self.functions.setdefault(fn.key, fn)
        return fn

    def s_ClassDef(self, s, env):
        bases = [self.eval(b, env) for b in s.bases]
        modname = env.globs.get("__name__", "?")
        ns = {"__qualname__": s.name, "__module__": modname, "__annotations__": []}
        cenv = Env(env.globs, parent=env if env.fn is not None else None, fn=env.fn)
        cenv.vars = ns
        cenv.cls_ns = ns
        for st in s.body:
            if isinstance(st, ast.AnnAssign) and isinstance(st.target, ast.Name):
                ns["__annotations__"].append(st.target.id)
            self.exec_stmt(st, cenv)
        cls = RepoClass(self, s.name, modname, bases, ns)
        for v in ns.values():
            for f in self._unwrap_fns(v):
                if f.defcls is None:
                    f.defcls = cls
        val = cls
        for dec in reversed(s.decorator_list):
            d = self.eval(dec, env)
            val = self.call(d, [val], {})
        self.classes[cls.key] = cls
        self.bind_name(s.name, val, env)

    def _unwrap_fns(self, v):
        if isinstance(v, RepoFunction):
            return [v]
        if isinstance(v, PropertyObj):
            return [f for f in (v.fget, v.fset) if isinstance(f, RepoFunction)]
        if isinstance(v, (ClassMethodObj, StaticMethodObj)):
            return self._unwrap_fns(v.fn)
        if isinstance(v, ContextManagerFn):
            return [v.fn]
        if isinstance(v, SingleDispatch):
            return [v.default]
        return []

    def s_Return(self, s, env):
        raise _Return(self.eval(s.value, env) if s.value is not None else None)

    def s_Assign(self, s, env):
        v = self.eval(s.value, env)
        for t in s.targets:
            self.assign(t, v, env)

    def s_AnnAssign(self, s, env):
        if s.value is not None:
            self.assign(s.target, self.eval(s.value, env), env)

    def s_AugAssign(self, s, env):
        op = _BINOPS[type(s.op)]
        t = s.target
        if isinstance(t, ast.Name):
            cur = self.lookup(t.id, env)
            self.bind_name(t.id, self.inplace(op, cur, self.eval(s.value, env)), env)
        elif isinstance(t, ast.Attribute):
            o = self.eval(t.value, env)
            cur = self.getattr(o, t.attr)
            self.setattr(o, t.attr, self.inplace(op, cur, self.eval(s.value, env)))
        elif isinstance(t, ast.Subscript):
            o = self.eval(t.value, env)
            idx = self.eval_index(t.slice, env)
            cur = self.getitem(o, idx)
            self.setitem(o, idx, self.inplace(op, cur, self.eval(s.value, env)))
        else:
            raise Untranslatable("augmented assignment target")

    def inplace(self, op, cur, v):
        if isinstance(cur, (Arr, TArr)):
            return self.np.inplace(op, cur, v)
        if isinstance(cur, Obj):
            name = _IOPS.get(op)
            f, _ = obj_cls(cur).lookup(name) if name else (None, None)
            if f is not None:
                return self.call(BoundMethod(f, cur), [v], {})
        if isinstance(cur, list) and op == "+":
            cur.extend(self.iterate(v))
            return cur
        return self.binop(op, cur, v)

    def s_If(self, s, env):
        if self.truth(self.eval(s.test, env)):
            self.exec_block(s.body, env)
        else:
            self.exec_block(s.orelse, env)

    def s_For(self, s, env):
        it = self.eval(s.iter, env)
        if isinstance(it, (TArr, SymEnum, SymList, SymRange)):
            return self.cut_loop(s, env, it)
        broke = False
        for item in self.iterate(it):
            self.assign(s.target, item, env)
            try:
                self.exec_block(s.body, env)
            except _Break:
                broke = True
                break
            except _Continue:
                continue
        if not broke:
            self.exec_block(s.orelse, env)

    def loop_ordinal(self, fn, node):
        k = 0
        for n in sorted((x for x in _walk_fn(fn.node) if isinstance(x, (ast.For, ast.While))), key=lambda x: (x.lineno, x.col_offset)):
            if n is node:
                return k
            k += 1
        return -1

    def cut_loop(self, s, env, it):
        """`for <target> in <array of symbolic extent>`: cut at the sidecar invariant (DESIGN 2.2):
        inv-entry obligation; havoc of everything the body assigns; one path proves the inductive step and ends,
        the other continues after the loop from a havocked state that satisfies the invariant at the exit."""
        fn = env.fn
        key = (fn.key if fn is not None else "?", self.loop_ordinal(fn, s) if fn is not None else -1)
        spec = self.loop_specs.get(key)
        if spec is None:
            raise Untranslatable(f"loop of symbolic length at {key[0]} line {s.lineno} needs an invariant")
        if s.orelse:
            raise Untranslatable("for/else on a loop of symbolic length")
        arr = it.arr if isinstance(it, SymEnum) else it
        n = term_of(raw(arr.n if isinstance(arr, (SymList, SymRange)) else arr.shape[0]), "int")
        ctx = self.ctx

        def bind(k):
            if isinstance(arr, (SymList, SymRange)):
                self.assign(s.target, arr.elem(k), env)
                return
            row = self.np.getitem(arr, Sym(k, "int")) if arr.ndim > 1 else arr.get((Sym(k, "int"),))
            item = (mk(k + it.start, "int"), row) if isinstance(it, SymEnum) else row
            self.assign(s.target, item, env)

        class L:   # view of the locals for the invariant
            pass

        def view(k):
            v = L()
            v.__dict__.update(env.vars)
            v.k = Sym(k, "int") if not isinstance(k, int) else k
            v.n = mk(n, "int")
            return v

        def guarded(f, *a):
            # the sidecar talks about the function's locals: after a refactoring that renames or removes one, the invariant no
            # longer applies -- that is "outside the subset on this tree" (the bounded contracts decide), not a verdict
            try:
                return f(*a)
            except (AttributeError, KeyError, NameError) as e:
                raise Untranslatable(f"the loop invariant of {key[0]} loop {key[1]} does not fit this source any more ({type(e).__name__}: {e})")

        def inv_term(k):
            r = guarded(spec["invariant"], view(k))
            return term_of(r, "bool") if isinstance(r, Sym) else z3.BoolVal(bool(r))

        # 1. the invariant holds on entry
        ctx.oblige(f"{key[0]}#loop{key[1]}", "inv-entry", inv_term(0), {})
        # 2. havoc
        for name, kind in spec.get("havoc", {}).items():
            cur = env.vars.get(name)
            if kind.startswith("like:"):       # a number of the element kind of another local array
                kind = {"f": "float", "i": "int", "u": "int", "b": "bool"}[env.vars[kind[5:]].dtype.kind]
            if kind == "array":
                if not isinstance(cur, TArr):
                    raise Untranslatable(f"havoc of {name}: not an array of symbolic extent")
                sort = cur._term.sort()
                nanm = z3.Const(ctx.fresh_name("havoc_nan_" + name), cur.nan.sort()) if cur.nan is not None else None
                # the body writes INTO the array (element stores): the object itself is havocked, so that every alias of it
                # (the caller's variable the array was passed in from) sees the havoc, exactly as it sees the real writes
                cur._term = z3.Const(ctx.fresh_name("havoc_" + name), sort)
                cur.nan = nanm
                cur.slice_of = None
                cur.gather_of = None
            elif kind in ("int", "float", "bool"):
                zs = {"int": z3.Int, "float": z3.Real, "bool": z3.Bool}[kind]
                env.vars[name] = Sym(zs(ctx.fresh_name("havoc_" + name)), kind, spec.get("np", {}).get(name, True))
            else:
                raise Untranslatable(f"havoc kind {kind}")
        if ctx.fork():
            # 3a. inductive step for an arbitrary iteration k
            k = z3.Int(ctx.fresh_name("iter"))
            ctx.assume(z3.And(k >= 0, k < n), "loop index")
            ctx.assume(inv_term(k), "invariant (hypothesis)")
            bind(k)
            try:
                self.exec_block(s.body, env)
            except (_Break, _Continue):
                raise Untranslatable("break/continue in a loop cut at an invariant")
            for h in guarded(spec.get("hints", lambda v: []), view(k)):
                if isinstance(h, tuple):     # (lemma, args): its hypotheses are an obligation here, its conclusion is assumed
                    lem, largs = h
                    ctx.oblige(f"{key[0]}#loop{key[1]}:{lem.name}", "lemma-pre", lem.hyps(*largs), {})
                    ctx.assume(lem.stmt(*largs, lem.upto(*largs)), "lemma instance " + lem.name)
                else:
                    ctx.assume(term_of(h, "bool") if isinstance(h, Sym) else h, "lemma instance")
            ctx.oblige(f"{key[0]}#loop{key[1]}", "inv-step", inv_term(k + 1), {})
            raise PathEnd()
        # 3b. after the loop: the invariant at k = n
        ctx.assume(inv_term(n), "invariant (at exit)")
        for h in guarded(spec.get("exit_hints", lambda v: []), view(n)):
            if h[0] == "squares":      # the definition of the (otherwise opaque) array of squares of h[1]
                from .tarr import square_axiom
                ctx.assume(square_axiom(h[1]), "definition of the squares array")
                continue
            if h[0] == "instance":     # (.., lemma, outer args): H -> forall rest. C of a lemma PROVED on this run: a valid formula
                if h[1].assumed:
                    raise Untranslatable("an assumed lemma cannot be used as an unconditional instance")
                ctx.assume(h[1].closed_instance(*h[2]), "lemma instance " + h[1].name)
                continue
            lem, largs = h
            ctx.oblige(f"{key[0]}#loop{key[1]}:{lem.name}", "lemma-pre", lem.hyps(*largs), {})
            ctx.assume(lem.stmt(*largs, lem.upto(*largs)), "lemma instance " + lem.name)
            if lem.assumed:
                self.stub_log.add("lemma:" + lem.name)
        if isinstance(it, SymEnum) or True:
            # the loop targets keep their last values; they are not used after the loops we cut (checked by the contract author)
            pass

    def s_While(self, s, env):
        n = 0
        while self.truth(self.eval(s.test, env)):
            n += 1
            if n > 64:
                raise Untranslatable("while loop unrolled more than 64 times")
            try:
                self.exec_block(s.body, env)
            except _Break:
                break
            except _Continue:
                continue

    def s_Break(self, s, env):
        raise _Break()

    def s_Continue(self, s, env):
        raise _Continue()

    def s_Raise(self, s, env):
        if s.exc is None:
            cur = env.vars.get("$exc")
            e = env
            while cur is None and e.parent is not None:
                e = e.parent
                cur = e.vars.get("$exc")
            if cur is None:
                raise Untranslatable("bare raise outside except")
            raise Raised(cur)
        exc = self.eval(s.exc, env)
        if isinstance(exc, type) and issubclass(exc, BaseException):
            exc = exc()
        elif isinstance(exc, RepoClass):
            exc = self.call(exc, [], {})
        raise Raised(exc)

    def exc_matches(self, exc, spec):
        if isinstance(spec, tuple):
            return any(self.exc_matches(exc, x) for x in spec)
        if isinstance(spec, type):
            if isinstance(exc, BaseException):
                return isinstance(exc, spec)
            if isinstance(exc, Obj):
                return any(isinstance(c, type) and issubclass(c, spec) for c in obj_cls(exc).mro)
            return False
        if isinstance(spec, RepoClass):
            return isinstance(exc, Obj) and obj_cls(exc).issubclass(spec)
        raise Untranslatable("except clause type")

    def s_Try(self, s, env):
        try:
            try:
                self.exec_block(s.body, env)
            except Raised as r:
                for h in s.handlers:
                    if h.type is None or self.exc_matches(r.exc, self.eval(h.type, env)):
                        if h.name:
                            env.vars[h.name] = r.exc
                        saved = env.vars.get("$exc")
                        env.vars["$exc"] = r.exc
                        try:
                            self.exec_block(h.body, env)
                        finally:
                            env.vars["$exc"] = saved
                        break
                else:
                    raise
            else:
                self.exec_block(s.orelse, env)
        finally:
            if s.finalbody:
                # NB: a Python-level exception inside finalbody replaces the in-flight one, as in CPython
                self.exec_block(s.finalbody, env)

    def s_With(self, s, env, i=0):
        if i == len(s.items):
            return self.exec_block(s.body, env)
        item = s.items[i]
        cm = self.eval(item.context_expr, env)
        if isinstance(cm, ContextManagerCall):
            def body(val):
                if item.optional_vars is not None:
                    self.assign(item.optional_vars, val, env)
                self.s_With(s, env, i + 1)
            self.run_contextmanager(cm, body)
            return
        if hasattr(cm, "py_enter"):   # stub context managers (suppress, catch_warnings, errstate...)
            val = cm.py_enter()
            if item.optional_vars is not None:
                self.assign(item.optional_vars, val, env)
            try:
                self.s_With(s, env, i + 1)
            except Raised as r:
                if not cm.py_exit(r.exc):
                    raise
            else:
                cm.py_exit(None)
            return
        if isinstance(cm, Obj):
            enter, _ = obj_cls(cm).lookup("__enter__")
            exit_, _ = obj_cls(cm).lookup("__exit__")
            val = self.call(BoundMethod(enter, cm), [], {})
            if item.optional_vars is not None:
                self.assign(item.optional_vars, val, env)
            try:
                self.s_With(s, env, i + 1)
            except Raised as r:
                if not self.truth(self.call(BoundMethod(exit_, cm), [type(r.exc), r.exc, None], {})):
                    raise
            else:
                self.call(BoundMethod(exit_, cm), [None, None, None], {})
            return
        raise Untranslatable(f"with on {type(cm).__name__}")

    def run_contextmanager(self, cm, body):
        """contextlib.contextmanager semantics for a single-yield generator function: the `with` body runs
        where the generator is suspended; an exception of the body is thrown at the yield."""
        state = {"yielded": 0}

        def cb(val):
            state["yielded"] += 1
            if state["yielded"] > 1:
                raise Raised(RuntimeError("generator didn't stop"))
            body(val)
            return None
        self.call_function(cm.fn, cm.args, cm.kwargs, yield_cb=cb)
        if state["yielded"] == 0:
            raise Raised(RuntimeError("generator didn't yield"))

    def s_Assert(self, s, env):
        if not self.truth(self.eval(s.test, env)):
            raise Raised(AssertionError())

    def s_Delete(self, s, env):
        for t in s.targets:
            if isinstance(t, ast.Name):
                env.vars.pop(t.id, None)
            elif isinstance(t, ast.Subscript):
                o = self.eval(t.value, env)
                idx = self.eval_index(t.slice, env)
                if isinstance(o, (dict, list)):
                    try:
                        del o[idx]
                    except (KeyError, IndexError) as e:
                        raise Raised(e)
                else:
                    raise Untranslatable("del subscript")
            elif isinstance(t, ast.Attribute):
                o = self.eval(t.value, env)
                if isinstance(o, Obj):
                    obj_dict(o).pop(t.attr, None)
            else:
                raise Untranslatable("del target")

    def s_Global(self, s, env):
        raise Untranslatable("global statement")

    def s_Nonlocal(self, s, env):
        env.vars.setdefault("$nonlocal", set()).update(s.names)

    # ------------------------------------------------------------------ names / assignment
    def lookup(self, name, env):
        e = env
        while e is not None:
            if name in e.vars and not (e.cls_ns is not None and e is not env):
                return e.vars[name]
            e = e.parent
        if name in env.globs:
            return env.globs[name]
        if name in self.builtins:
            return self.builtins[name]
        raise Raised(NameError(f"name {name!r} is not defined"))

    def bind_name(self, name, v, env):
        nl = env.vars.get("$nonlocal")
        if nl and name in nl:
            e = env.parent
            while e is not None:
                if name in e.vars:
                    e.vars[name] = v
                    return
                e = e.parent
        env.vars[name] = v

    def assign(self, t, v, env):
        if isinstance(t, ast.Name):
            self.bind_name(t.id, v, env)
        elif isinstance(t, (ast.Tuple, ast.List)):
            items = list(self.iterate(v))
            star = [i for i, e in enumerate(t.elts) if isinstance(e, ast.Starred)]
            if star:
                i = star[0]
                n_after = len(t.elts) - i - 1
                if len(items) < len(t.elts) - 1:
                    raise Raised(ValueError("not enough values to unpack"))
                for e, x in zip(t.elts[:i], items[:i]):
                    self.assign(e, x, env)
                self.assign(t.elts[i].value, items[i:len(items) - n_after], env)
                for e, x in zip(t.elts[i + 1:], items[len(items) - n_after:]):
                    self.assign(e, x, env)
                return
            if len(items) != len(t.elts):
                raise Raised(ValueError(f"{'too many' if len(items) > len(t.elts) else 'not enough'} values to unpack "
                                        f"(expected {len(t.elts)}, got {len(items)})"))
            for e, x in zip(t.elts, items):
                self.assign(e, x, env)
        elif isinstance(t, ast.Attribute):
            self.setattr(self.eval(t.value, env), t.attr, v)
        elif isinstance(t, ast.Subscript):
            o = self.eval(t.value, env)
            self.setitem(o, self.eval_index(t.slice, env), v)
        else:
            raise Untranslatable(f"assignment target {type(t).__name__}")

    # ------------------------------------------------------------------ attributes
    def getattr(self, o, name):
        if isinstance(o, Obj):
            d = obj_dict(o)
            cls = obj_cls(o)
            v, owner = cls.lookup(name)
            if isinstance(v, PropertyObj):
                return self.call(v.fget, [o], {})
            if name in d:
                return d[name]
            if name == "__class__":
                return cls
            if name == "__dict__":
                return d
            if v is None and owner is None:
                if any(c is BaseException or (isinstance(c, type) and issubclass(c, BaseException)) for c in cls.mro) and name == "args":
                    return d.get("args", ())
                raise Raised(AttributeError(f"'{cls.name}' object has no attribute '{name}'"))
            return self.bind_attr(v, o, cls)
        if isinstance(o, SuperProxy):
            cls = obj_cls(o.obj) if isinstance(o.obj, Obj) else o.obj
            v, owner = cls.lookup(name, after=o.cls)
            if v is None and owner is None:
                if name == "__init__":
                    return Builtin("object.__init__", lambda *a, **k: None)
                if name == "__new__":
                    return Builtin("object.__new__", lambda c, *a, **k: Obj(c))
                raise Raised(AttributeError(f"'super' object has no attribute '{name}'"))
            if isinstance(v, PropertyObj):
                return self.call(v.fget, [o.obj], {})
            return self.bind_attr(v, o.obj if isinstance(o.obj, Obj) else None, cls)
        if isinstance(o, RepoClass):
            if name == "__name__":
                return o.name
            if name == "__new__":
                v, _ = o.lookup("__new__")
                if v is None:
                    return Builtin("object.__new__", lambda c, *a, **k: Obj(c))
                return v.fn if isinstance(v, StaticMethodObj) else v
            if name == "__subclasses__":
                return Builtin("__subclasses__", lambda: list(o.subclasses))
            if name == "__mro__":
                return tuple(o.mro)
            v, owner = o.lookup(name)
            if v is None and owner is None:
                raise Raised(AttributeError(f"type object '{o.name}' has no attribute '{name}'"))
            if isinstance(v, ClassMethodObj):
                return BoundMethod(v.fn, o)
            if isinstance(v, StaticMethodObj):
                return v.fn
            return v
        if isinstance(o, ModuleNS):
            if name in o.d:
                return o.d[name]
            sub = o.name + "." + name
            if self.is_repo_module(sub):
                return self.load_module(sub)
            if not self.is_repo_module(o.name) and not name.startswith("__"):
                # a stub of a module that is not the repository's: what the stub lacks is outside the subset, not absent
                raise Untranslatable(f"{o.name}.{name} (no stub)")
            raise Raised(AttributeError(f"module '{o.name}' has no attribute '{name}'"))
        if isinstance(o, RepoFunction):
            if name == "__name__":
                return o.name
            if name in o.attrs:
                return o.attrs[name]
            raise Raised(AttributeError(f"function has no attribute {name}"))
        if isinstance(o, SingleDispatch):
            if name == "register":
                return Builtin("register", lambda *a, **k: self.sd_register(o, *a, **k))
            if name == "__name__":
                return o.name
        if isinstance(o, BoundMethod):
            return self.getattr(o.fn, name)
        if isinstance(o, PropertyObj):
            if name == "setter":
                return Builtin("property.setter", lambda f: PropertyObj(o.fget, f))
            if name == "getter":
                return Builtin("property.getter", lambda f: PropertyObj(f, o.fset))
            if name == "fget":
                return o.fget
        from . import pystubs
        return pystubs.builtin_getattr(self, o, name)

    def bind_attr(self, v, o, cls):
        if isinstance(v, RepoFunction):
            return BoundMethod(v, o) if o is not None else v
        if isinstance(v, ClassMethodObj):
            return BoundMethod(v.fn, cls)
        if isinstance(v, StaticMethodObj):
            return v.fn
        if isinstance(v, ContextManagerFn):
            return BoundMethod(v, o) if o is not None else v
        if isinstance(v, SingleDispatch):
            return v
        return v

    def hasattr(self, o, name):
        try:
            self.getattr(o, name)
            return True
        except Raised as r:
            if isinstance(r.exc, AttributeError):
                return False
            raise

    def setattr(self, o, name, v):
        if isinstance(o, Obj):
            cls = obj_cls(o)
            p, _ = cls.lookup(name)
            if isinstance(p, PropertyObj):
                if p.fset is None:
                    raise Raised(AttributeError(f"property '{name}' of '{cls.name}' object has no setter"))
                self.call(p.fset, [o, v], {})
                return
            if cls.dataclass and cls.dataclass.get("frozen"):
                import dataclasses
                raise Raised(dataclasses.FrozenInstanceError(f"cannot assign to field '{name}'"))
            obj_dict(o)[name] = v
            return
        if isinstance(o, RepoClass):
            o.ns[name] = v
            return
        if isinstance(o, RepoFunction):
            o.attrs[name] = v
            return
        if isinstance(o, ModuleNS):
            o.d[name] = v
            return
        from . import pystubs
        return pystubs.builtin_setattr(self, o, name, v)

    # ------------------------------------------------------------------ calls
    def call(self, f, args, kwargs):
        if isinstance(f, BoundMethod):
            return self.call(f.fn, [f.self_] + list(args), kwargs)
        if isinstance(f, RepoFunction):
            if self.call_hook is not None:
                r = self.call_hook(self, f, args, kwargs)
                if r is not NotImplemented:
                    return r
            return self.call_function(f, args, kwargs)
        if isinstance(f, Builtin):
            return f.f(*args, **kwargs)
        if isinstance(f, RepoClass):
            return self.instantiate(f, args, kwargs)
        if isinstance(f, SingleDispatch):
            return self.call(self.sd_dispatch(f, args[0] if args else None), args, kwargs)
        if isinstance(f, ContextManagerFn):
            return ContextManagerCall(f.fn, list(args), dict(kwargs))
        if isinstance(f, type) and issubclass(f, BaseException):
            return f(*[self.to_py_str(a) for a in args])
        if isinstance(f, Obj):
            c, _ = obj_cls(f).lookup("__call__")
            if c is not None:
                return self.call(BoundMethod(c, f), args, kwargs)
        from . import pystubs
        return pystubs.call_foreign(self, f, args, kwargs)

    def to_py_str(self, a):
        if isinstance(a, str):
            return a
        return self.py_str(a)

    def py_str(self, v):
        if isinstance(v, (Sym,)):
            return repr(v)
        if isinstance(v, NpScalar):
            return str(v.v)
        if isinstance(v, (Arr, TArr)):
            return repr(v)
        if isinstance(v, RepoClass):
            return f"<class '{v.module}.{v.name}'>"
        if isinstance(v, (list, tuple)):
            inner = ", ".join(self.py_repr(x) for x in v)
            if isinstance(v, list):
                return "[" + inner + "]"
            return "(" + inner + ("," if len(v) == 1 else "") + ")"
        if isinstance(v, Obj):
            if any(isinstance(c, type) and issubclass(c, BaseException) for c in obj_cls(v).mro):
                return ", ".join(self.py_str(a) for a in obj_dict(v).get("args", ()))
            return f"<{obj_cls(v).name} object>"
        return str(v)

    def py_repr(self, v):
        if isinstance(v, str):
            return repr(v)
        return self.py_str(v)

    def instantiate(self, cls, args, kwargs):
        new, _ = cls.lookup("__new__")
        if new is not None:
            fn = new.fn if isinstance(new, StaticMethodObj) else new
            o = self.call(fn, [cls] + list(args), kwargs)
        else:
            if any(getattr(f, "attrs", {}).get("__isabstractmethod__") or
                   (isinstance(f, PropertyObj) and isinstance(f.fget, RepoFunction) and f.fget.attrs.get("__isabstractmethod__"))
                   for f in self.abstract_members(cls)):
                raise Raised(TypeError(f"Can't instantiate abstract class {cls.name}"))
            o = Obj(cls)
        if isinstance(o, Obj) and obj_cls(o).issubclass(cls):
            init, owner = cls.lookup("__init__")
            if init is not None:
                self.call(BoundMethod(init, o), args, kwargs)
            elif any(isinstance(c, type) and issubclass(c, BaseException) for c in cls.mro):
                obj_dict(o)["args"] = tuple(args)
            elif args or kwargs:
                raise Raised(TypeError(f"{cls.name}() takes no arguments"))
        return o

    def abstract_members(self, cls):
        seen = {}
        for c in reversed(cls.mro):
            if isinstance(c, RepoClass):
                for k, v in c.ns.items():
                    seen[k] = v
        return seen.values()

    def sd_register(self, sd, *a, **k):
        if len(a) == 1 and isinstance(a[0], RepoFunction):
            fn = a[0]
            # type from the annotation of the first parameter
            ann = fn.node.args.args[0].annotation
            env = Env(fn.globs)
            if isinstance(ann, ast.Constant) and ann.value is None:
                t = type(None)
            else:
                t = self.eval(ann, env)
                if t is None:
                    t = type(None)
            sd.registry.append((t, fn))
            return fn
        if len(a) == 1:
            t = a[0]
            return Builtin("register", lambda fn: (sd.registry.append((t, fn)), fn)[1])
        raise Untranslatable("singledispatch.register form")

    def sd_dispatch(self, sd, arg):
        for t, fn in reversed(sd.registry):
            if self.isinstance(arg, t):
                return fn
        return sd.default

    def bind_args(self, fn, args, kwargs):
        a = fn.node.args
        params = [p.arg for p in a.posonlyargs] + [p.arg for p in a.args]
        npos = len(a.posonlyargs)
        bound = {}
        args = list(args)
        kwargs = dict(kwargs)
        if len(args) > len(params) and a.vararg is None:
            raise Raised(TypeError(f"{fn.name}() takes {len(params)} positional arguments but {len(args)} were given"))
        for p, v in zip(params, args):
            bound[p] = v
        if a.vararg is not None:
            bound[a.vararg.arg] = tuple(args[len(params):])
        ndef = len(fn.defaults)
        for i, p in enumerate(params):
            if p in bound:
                if p in kwargs and i >= npos:
                    raise Raised(TypeError(f"{fn.name}() got multiple values for argument '{p}'"))
                continue
            if p in kwargs and i >= npos:
                bound[p] = kwargs.pop(p)
            else:
                j = i - (len(params) - ndef)
                if j >= 0:
                    bound[p] = fn.defaults[j]
                else:
                    raise Raised(TypeError(f"{fn.name}() missing required positional argument: '{p}'"))
        for k in a.kwonlyargs:
            if k.arg in kwargs:
                bound[k.arg] = kwargs.pop(k.arg)
            elif k.arg in fn.kw_defaults:
                bound[k.arg] = fn.kw_defaults[k.arg]
            else:
                raise Raised(TypeError(f"{fn.name}() missing required keyword-only argument: '{k.arg}'"))
        if a.kwarg is not None:
            bound[a.kwarg.arg] = kwargs
        elif kwargs:
            raise Raised(TypeError(f"{fn.name}() got an unexpected keyword argument '{next(iter(kwargs))}'"))
        return bound

    def call_function(self, fn, args, kwargs, yield_cb=None):
        if fn.wrapped is not None:
            return fn.wrapped(*args, **kwargs)
        if fn.is_generator and yield_cb is None:
            raise Untranslatable(f"generator function {fn.key} outside the contextmanager pattern")
        bound = self.bind_args(fn, args, kwargs)
        env = Env(fn.globs, parent=fn.closure, fn=fn)
        env.vars.update(bound)
        env.yield_cb = yield_cb
        params = fn.node.args.posonlyargs + fn.node.args.args
        if params:
            env.selfobj = bound.get(params[0].arg)
        if self.call_depth > 60:
            raise Untranslatable("call depth > 60 (recursion?)")
        self.call_depth += 1
        self.stack.append(fn.key)
        if isinstance(fn.node, ast.FunctionDef) and "<locals>" not in fn.qualname:
            self.executed.add(fn.key)
        try:
            if isinstance(fn.node, ast.Lambda):
                return self.eval(fn.node.body, env)
            try:
                self.exec_block(fn.node.body, env)
            except _Return as r:
                return r.v
            return None
        finally:
            self.stack.pop()
            self.call_depth -= 1

    # ------------------------------------------------------------------ expressions
    def eval(self, e, env):
        m = getattr(self, "e_" + type(e).__name__, None)
        if m is None:
            raise Untranslatable(f"expression {type(e).__name__} at line {getattr(e, 'lineno', '?')}")
        return m(e, env)

    def e_Constant(self, e, env):
        return e.value

    def e_Name(self, e, env):
        return self.lookup(e.id, env)

    def e_Attribute(self, e, env):
        return self.getattr(self.eval(e.value, env), e.attr)

    def e_Tuple(self, e, env):
        return tuple(self.eval_elts(e.elts, env))

    def e_List(self, e, env):
        return self.eval_elts(e.elts, env)

    def e_Set(self, e, env):
        return set(self.eval_elts(e.elts, env))

    def eval_elts(self, elts, env):
        out = []
        for x in elts:
            if isinstance(x, ast.Starred):
                out.extend(self.iterate(self.eval(x.value, env)))
            else:
                out.append(self.eval(x, env))
        return out

    def e_Dict(self, e, env):
        d = {}
        for k, v in zip(e.keys, e.values):
            if k is None:
                d.update(self.eval(v, env))
            else:
                d[self.hashable(self.eval(k, env))] = self.eval(v, env)
        return d

    def hashable(self, k):
        k = raw(k) if isinstance(k, NpScalar) else k
        if isinstance(k, (Sym, Arr, TArr)):
            raise Untranslatable("symbolic dict key / set element")
        return k

    def e_JoinedStr(self, e, env):
        parts = []
        for v in e.values:
            if isinstance(v, ast.Constant):
                parts.append(v.value)
            else:
                val = self.eval(v.value, env)
                if v.conversion == 114:
                    parts.append(self.py_repr(val))
                else:
                    parts.append(self.py_str(val))
        return "".join(parts)

    def e_Lambda(self, e, env):
        return self.make_function(e, env)

    def e_IfExp(self, e, env):
        return self.eval(e.body, env) if self.truth(self.eval(e.test, env)) else self.eval(e.orelse, env)

    def e_BoolOp(self, e, env):
        isand = isinstance(e.op, ast.And)
        v = None
        for x in e.values:
            v = self.eval(x, env)
            t = self.truth(v)
            if isand and not t:
                return v
            if not isand and t:
                return v
        return v

    def e_UnaryOp(self, e, env):
        v = self.eval(e.operand, env)
        if isinstance(e.op, ast.Not):
            return not self.truth(v)
        op = {ast.USub: "-", ast.UAdd: "+", ast.Invert: "~"}[type(e.op)]
        if isinstance(v, (Arr, TArr)):
            return self.np.unary(op, v)
        if isinstance(v, Obj):
            raise Untranslatable("unary op on object")
        return unop(op, v)

    def e_BinOp(self, e, env):
        return self.binop(_BINOPS[type(e.op)], self.eval(e.left, env), self.eval(e.right, env))

    def binop(self, op, a, b):
        if isinstance(a, (Arr, TArr)) or isinstance(b, (Arr, TArr)):
            if isinstance(a, Obj) or isinstance(b, Obj):
                pass
            else:
                return self.np.binary(op, a, b)
        if isinstance(a, Obj):
            f, _ = obj_cls(a).lookup(_DUNDER[op])
            if f is not None:
                r = self.call(BoundMethod(f, a), [b], {})
                if r is not NotImplemented:
                    return r
            if isinstance(b, Obj):
                f, _ = obj_cls(b).lookup(_RDUNDER[op])
                if f is not None:
                    return self.call(BoundMethod(f, b), [a], {})
            raise Raised(TypeError(f"unsupported operand type(s) for {op}: '{obj_cls(a).name}' and '{self.type_name(b)}'"))
        if isinstance(b, Obj):
            f, _ = obj_cls(b).lookup(_RDUNDER[op])
            if f is not None:
                return self.call(BoundMethod(f, b), [a], {})
            raise Raised(TypeError(f"unsupported operand type(s) for {op}: '{self.type_name(a)}' and '{obj_cls(b).name}'"))
        if _is_scalar(a) and _is_scalar(b):
            if op == "&":
                return logic_and(a, b)
            if op == "|":
                return logic_or(a, b)
            try:
                return binop(op, a, b)
            except ZeroDiv as z:
                return self.division_by_maybe_zero(op, a, b, z.cond)
        return self.binop_generic(op, a, b)

    def division_by_maybe_zero(self, op, a, b, cond):
        if self.ctx.branch(cond):
            if is_np_scalar(a) or is_np_scalar(b):
                # numpy scalar division: x/0 -> +-inf or nan (RuntimeWarning), never an exception
                if op != "/":
                    raise Untranslatable("numpy // or % by zero")
                ta = term_of(raw(a), "float")
                if self.ctx.branch(ta == 0):
                    return NpScalar(float("nan"), _np.float64)
                if self.ctx.branch(ta > 0):
                    return NpScalar(float("inf"), _np.float64)
                return NpScalar(float("-inf"), _np.float64)
            raise Raised(ZeroDivisionError("division by zero"))
        return binop(op, a, b, spec=True)

    def binop_generic(self, op, a, b):
        if op == "+":
            if isinstance(a, list) and isinstance(b, list):
                return a + b
            if isinstance(a, tuple) and isinstance(b, tuple):
                return a + b
            if isinstance(a, str) and isinstance(b, str):
                return a + b
        if op == "*":
            for x, y in ((a, b), (b, a)):
                if isinstance(x, (list, tuple, str)) and isinstance(raw(y), int):
                    return x * raw(y)
                if isinstance(x, (list, tuple, str)) and isinstance(raw(y), Sym) and raw(y).kind == "int":
                    raise Untranslatable("sequence repeated a symbolic number of times")
        if op == "%" and isinstance(a, str):
            return a % b
        if op == "|" and isinstance(a, (set, dict)) and isinstance(b, (set, dict)):
            return a | b
        if op == "&" and isinstance(a, set) and isinstance(b, set):
            return a & b
        if op == "-" and isinstance(a, set) and isinstance(b, set):
            return a - b
        from . import pystubs
        return pystubs.binop_foreign(self, op, a, b)

    def type_name(self, v):
        if isinstance(v, Obj):
            return obj_cls(v).name
        if isinstance(v, Sym):
            return v.kind
        return type(v).__name__

    def e_Compare(self, e, env):
        left = self.eval(e.left, env)
        result = True
        for op, rn in zip(e.ops, e.comparators):
            right = self.eval(rn, env)
            r = self.compare(op, left, right)
            if len(e.ops) == 1:
                return r
            if not self.truth(r):
                return False
            result = r
            left = right
        return result

    def compare(self, op, a, b):
        if isinstance(op, ast.Is):
            return self.identical(a, b)
        if isinstance(op, ast.IsNot):
            return not self.identical(a, b)
        if isinstance(op, ast.In):
            return self.contains(b, a)
        if isinstance(op, ast.NotIn):
            return not self.truth(self.contains(b, a))
        sop = _CMPOPS[type(op)]
        if isinstance(a, (Arr, TArr)) or isinstance(b, (Arr, TArr)):
            if not (isinstance(a, Obj) or isinstance(b, Obj)):
                return self.np.binary(sop, a, b)
        if sop in ("==", "!="):
            eq = self.equals(a, b)
            return eq if sop == "==" else self.negate(eq)
        if isinstance(a, Obj):
            f, _ = obj_cls(a).lookup(_DUNDER[sop])
            if f is not None:
                return self.call(BoundMethod(f, a), [b], {})
        if _is_scalar(a) and _is_scalar(b):
            return compare(sop, a, b)
        if isinstance(a, (tuple, list, str)) and type(a) is type(b):
            if all(not isinstance(x, Sym) for x in list(a) + list(b)):
                import operator
                return {"<": operator.lt, "<=": operator.le, ">": operator.gt, ">=": operator.ge}[sop](a, b)
        if a is None or b is None:
            raise Raised(TypeError(f"'{sop}' not supported between instances of '{self.type_name(a)}' and '{self.type_name(b)}'"))
        from . import pystubs
        return pystubs.compare_foreign(self, sop, a, b)

    def negate(self, v):
        if isinstance(v, bool):
            return not v
        if isinstance(v, (Sym, NpScalar)):
            return logic_not(v)
        if isinstance(v, (Arr, TArr)):
            return self.np.unary("~", v)
        return not self.truth(v)

    def identical(self, a, b):
        if a is b:
            return True
        if isinstance(a, (Sym, Obj, Arr, TArr, list, dict)) or isinstance(b, (Sym, Obj, Arr, TArr, list, dict)):
            return False
        if a is None or b is None:
            return False
        if isinstance(a, bool) and isinstance(b, bool):
            return a == b
        if isinstance(a, (type, RepoClass, NpTypeMarker)) or isinstance(b, (type, RepoClass, NpTypeMarker)):
            return a is b
        if isinstance(a, tuple) and isinstance(b, tuple) and a == () and b == ():
            return True
        return a is b

    def equals(self, a, b):
        """Python == ; returns bool or Sym bool."""
        if a is b and not (isinstance(a, float) and a != a):
            if not isinstance(a, (Sym, Arr, TArr)):
                return True
        if isinstance(a, Obj):
            f, _ = obj_cls(a).lookup("__eq__")
            if f is not None:
                r = self.call(BoundMethod(f, a), [b], {})
                if r is not NotImplemented:
                    return r
            if obj_cls(a).dataclass and isinstance(b, Obj) and obj_cls(b) is obj_cls(a):
                return self.equals(tuple(obj_dict(a)[k] for k in obj_cls(a).dataclass["fields"]),
                                   tuple(obj_dict(b)[k] for k in obj_cls(a).dataclass["fields"]))
            if isinstance(b, Obj):
                f, _ = obj_cls(b).lookup("__eq__")
                if f is not None:
                    r = self.call(BoundMethod(f, b), [a], {})
                    if r is not NotImplemented:
                        return r
            return a is b
        if isinstance(b, Obj):
            return self.equals(b, a)
        if _is_scalar(a) and _is_scalar(b):
            return compare("==", a, b)
        if isinstance(a, (tuple, list)) and isinstance(b, (tuple, list)):
            if type(a) is not type(b):
                return False
            if len(a) != len(b):
                return False
            acc = True
            for x, y in zip(a, b):
                r = self.equals(x, y)
                if isinstance(r, (Arr, TArr)):
                    r = self.truth(r)
                if r is False:
                    return False
                if r is not True:
                    acc = r if acc is True else logic_and(acc, r)
            return acc
        if isinstance(a, dict) and isinstance(b, dict):
            if set(a.keys()) != set(b.keys()):
                return False
            return self.equals([a[k] for k in a], [b[k] for k in a])
        if isinstance(a, slice) and isinstance(b, slice):
            return self.equals((a.start, a.stop, a.step), (b.start, b.stop, b.step))
        if isinstance(a, (Sym, NpScalar)) or isinstance(b, (Sym, NpScalar)):
            return False  # number vs non-number
        if isinstance(a, (Arr, TArr)) or isinstance(b, (Arr, TArr)):
            return self.np.binary("==", a, b)
        if isinstance(a, (RepoClass, RepoFunction, ModuleNS, BoundMethod)) or isinstance(b, (RepoClass, RepoFunction, ModuleNS, BoundMethod)):
            return a is b
        try:
            return bool(a == b)
        except Exception as ex:  # pragma: no cover
            raise Untranslatable(f"== on {type(a).__name__}/{type(b).__name__}: {ex}")

    def contains(self, container, item):
        if isinstance(container, dict):
            return self.hashable(item) in container
        if isinstance(container, (set, frozenset)):
            return self.hashable(item) in container
        if isinstance(container, str):
            if not isinstance(item, str):
                raise Raised(TypeError("'in <string>' requires string as left operand"))
            return item in container
        if isinstance(container, (list, tuple, GenList, range)) or isinstance(container, Arr):
            acc = False
            for x in self.iterate(container):
                if x is item and not isinstance(x, (Sym,)):
                    return True
                r = self.equals(x, item)
                if isinstance(r, (Arr, TArr)):
                    r = self.truth(r)
                if r is True:
                    return True
                if r is not False:
                    acc = r if acc is False else logic_or(acc, r)
            return acc
        if isinstance(container, Obj):
            f, _ = obj_cls(container).lookup("__contains__")
            if f is not None:
                return self.call(BoundMethod(f, container), [item], {})
        raise Untranslatable(f"'in' on {type(container).__name__}")

    def e_Call(self, e, env):
        # zero-argument super()
        if isinstance(e.func, ast.Name) and e.func.id == "super" and not e.args:
            fn = env.fn
            en = env
            while fn is not None and fn.defcls is None and en.parent is not None:
                en = en.parent
                fn = en.fn
            if fn is None or fn.defcls is None:
                raise Untranslatable("super() outside a method")
            return SuperProxy(fn.defcls, en.selfobj)
        f = self.eval(e.func, env)
        args = []
        for a in e.args:
            if isinstance(a, ast.Starred):
                args.extend(self.iterate(self.eval(a.value, env)))
            else:
                args.append(self.eval(a, env))
        kwargs = {}
        for k in e.keywords:
            if k.arg is None:
                d = self.eval(k.value, env)
                if not isinstance(d, dict):
                    raise Untranslatable("** of non-dict")
                for kk, vv in d.items():
                    if kk in kwargs:
                        raise Raised(TypeError(f"got multiple values for keyword argument '{kk}'"))
                    if not isinstance(kk, str):
                        raise Raised(TypeError("keywords must be strings"))
                    kwargs[kk] = vv
            else:
                if k.arg in kwargs:
                    raise Raised(TypeError(f"got multiple values for keyword argument '{k.arg}'"))
                kwargs[k.arg] = self.eval(k.value, env)
        return self.call(f, args, kwargs)

    def e_Subscript(self, e, env):
        o = self.eval(e.value, env)
        return self.getitem(o, self.eval_index(e.slice, env))

    def eval_index(self, s, env):
        if isinstance(s, ast.Slice):
            return slice(self.eval(s.lower, env) if s.lower else None,
                         self.eval(s.upper, env) if s.upper else None,
                         self.eval(s.step, env) if s.step else None)
        if isinstance(s, ast.Tuple):
            return tuple(self.eval_index(x, env) for x in s.elts)
        return self.eval(s, env)

    def e_Slice(self, e, env):
        return self.eval_index(e, env)

    def getitem(self, o, idx):
        if isinstance(o, (Arr, TArr)):
            return self.np.getitem(o, idx)
        if isinstance(o, (list, tuple, str)):
            if isinstance(idx, slice):
                return o[self.concrete_slice(idx)]
            i = self.concrete_int(idx, "sequence index")
            try:
                return o[i]
            except IndexError as ex:
                raise Raised(ex)
        if isinstance(o, dict):
            k = self.hashable(idx)
            if k not in o:
                raise Raised(KeyError(k))
            return o[k]
        if isinstance(o, range):
            try:
                return o[self.concrete_int(idx, "range index")]
            except IndexError as ex:
                raise Raised(ex)
        if isinstance(o, Obj):
            f, _ = obj_cls(o).lookup("__getitem__")
            if f is not None:
                return self.call(BoundMethod(f, o), [idx], {})
            raise Raised(TypeError(f"'{obj_cls(o).name}' object is not subscriptable"))
        if o is None:
            raise Raised(TypeError("'NoneType' object is not subscriptable"))
        if isinstance(o, (Sym, NpScalar, int, float)):
            if isinstance(o, (Sym, NpScalar)) and is_np_scalar(o):
                raise Raised(IndexError("invalid index to scalar variable."))
            raise Raised(TypeError(f"'{self.type_name(o)}' object is not subscriptable"))
        from . import pystubs
        return pystubs.getitem_foreign(self, o, idx)

    def setitem(self, o, idx, v):
        if isinstance(o, (Arr, TArr)):
            return self.np.setitem(o, idx, v)
        if isinstance(o, list):
            if isinstance(idx, slice):
                o[self.concrete_slice(idx)] = list(self.iterate(v))
                return
            try:
                o[self.concrete_int(idx, "list index")] = v
            except IndexError as ex:
                raise Raised(ex)
            return
        if isinstance(o, dict):
            o[self.hashable(idx)] = v
            return
        if isinstance(o, Obj):
            f, _ = obj_cls(o).lookup("__setitem__")
            if f is not None:
                return self.call(BoundMethod(f, o), [idx, v], {})
        if isinstance(o, tuple):
            raise Raised(TypeError("'tuple' object does not support item assignment"))
        raise Untranslatable(f"item assignment on {type(o).__name__}")

    def concrete_int(self, v, what="value"):
        v = raw(v)
        if isinstance(v, Sym):
            v = concretize(v)
            v = raw(v)
        if isinstance(v, bool):
            return int(v)
        if isinstance(v, int):
            return v
        if isinstance(v, Sym):
            raise Untranslatable(f"symbolic {what}")
        raise Raised(TypeError(f"{what} must be an integer, not {type(v).__name__}"))

    def concrete_slice(self, s):
        def c(x):
            return None if x is None else self.concrete_int(x, "slice bound")
        return slice(c(s.start), c(s.stop), c(s.step))

    def sym_comp(self, e, env):
        """comprehension / generator expression with ONE generator, no conditions, over a sequence of symbolic length:
        (n, elem) with elem(k) = the element expression evaluated with the target bound to the k-th item; None otherwise"""
        if len(e.generators) != 1 or e.generators[0].ifs or e.generators[0].is_async:
            return None
        g = e.generators[0]
        src = self.eval(g.iter, env)
        if not isinstance(src, (SymRange, SymList)):
            return None if not isinstance(src, SymGen) else (_ for _ in ()).throw(Untranslatable("comprehension over a symbolic-length generator"))

        def elem(k, src=src, g=g, e=e, env=env):
            cenv = Env(env.globs, parent=env, fn=env.fn)
            cenv.selfobj = env.selfobj
            self.assign(g.target, src.elem(k), cenv)
            return self.eval(e.elt, cenv)
        return src, elem

    def e_ListComp(self, e, env):
        sc = self.sym_comp(e, env) if any(isinstance(g.iter, (ast.Call, ast.Name, ast.Attribute)) for g in e.generators) else None
        if sc is not None:
            return SymList(sc[0].n, sc[1])
        out = []
        self.comp(e.generators, 0, Env(env.globs, parent=env, fn=env.fn), lambda en: out.append(self.eval(e.elt, en)))
        return out

    def e_SetComp(self, e, env):
        out = set()
        self.comp(e.generators, 0, Env(env.globs, parent=env, fn=env.fn),
                  lambda en: out.add(self.hashable(self.eval(e.elt, en))))
        return out

    def e_DictComp(self, e, env):
        out = {}

        def put(en):
            k = self.hashable(self.eval(e.key, en))
            out[k] = self.eval(e.value, en)
        self.comp(e.generators, 0, Env(env.globs, parent=env, fn=env.fn), put)
        return out

    def e_GeneratorExp(self, e, env):
        sc = self.sym_comp(e, env) if any(isinstance(g.iter, (ast.Call, ast.Name, ast.Attribute)) for g in e.generators) else None
        if sc is not None:
            return SymGen(sc[0].n, sc[1])
        out = []
        cenv = Env(env.globs, parent=env, fn=env.fn)
        cenv.selfobj = env.selfobj
        self.comp(e.generators, 0, cenv, lambda en: out.append(self.eval(e.elt, en)))
        return GenList(out)

    def comp(self, gens, i, env, emit):
        if i == len(gens):
            emit(env)
            return
        g = gens[i]
        env.selfobj = env.parent.selfobj if env.parent is not None and env.selfobj is None else env.selfobj
        for item in self.iterate(self.eval(g.iter, env)):
            self.assign(g.target, item, env)
            if all(self.truth(self.eval(c, env)) for c in g.ifs):
                self.comp(gens, i + 1, env, emit)

    def e_NamedExpr(self, e, env):
        v = self.eval(e.value, env)
        # binds in the enclosing function scope (PEP 572), not in the comprehension scope
        tgt = env
        while tgt.parent is not None and tgt.fn is tgt.parent.fn and tgt.parent.fn is not None and tgt is not tgt.parent:
            if getattr(tgt, "_is_fn_env", False):
                break
            tgt = tgt.parent
        env.vars[e.target.id] = v
        tgt.vars[e.target.id] = v
        return v

    def e_Yield(self, e, env):
        en = env
        while en is not None and en.yield_cb is None:
            en = en.parent
        if en is None:
            raise Untranslatable("yield outside the contextmanager pattern")
        v = self.eval(e.value, env) if e.value is not None else None
        return en.yield_cb(v)

    def e_Starred(self, e, env):
        raise Untranslatable("starred expression")

    def e_FormattedValue(self, e, env):
        return self.py_str(self.eval(e.value, env))

    # ------------------------------------------------------------------ truth / iteration / isinstance
    def truth(self, v):
        if v is None:
            return False
        if isinstance(v, bool):
            return v
        if isinstance(v, NpScalar):
            return self.truth(v.v)
        if isinstance(v, (int, float)):
            return v != 0
        if isinstance(v, Sym):
            if v.kind == "bool":
                return self.ctx.branch(v.t)
            if v.nan is not None:
                return self.ctx.branch(z3.Or(v.nan, v.t != 0))
            return self.ctx.branch(v.t != 0)
        if isinstance(v, (str, list, tuple, dict, set, frozenset, range)):
            return len(v) > 0
        if isinstance(v, GenList):
            return True
        if isinstance(v, Arr):
            if v.size == 1:
                return self.truth(v.elems()[0])
            if v.size == 0:
                return False
            raise Raised(ValueError("The truth value of an array with more than one element is ambiguous. Use a.any() or a.all()"))
        if isinstance(v, TArr):
            raise Untranslatable("truth value of a symbolic-extent array")
        if isinstance(v, Obj):
            cls = obj_cls(v)
            f, _ = cls.lookup("__bool__")
            if f is not None:
                return self.truth(self.call(BoundMethod(f, v), [], {}))
            f, _ = cls.lookup("__len__")
            if f is not None:
                return self.truth(compare("!=", self.call(BoundMethod(f, v), [], {}), 0))
            return True
        return True

    def iterate(self, v):
        if isinstance(v, (list, tuple, str, range, set, frozenset)):
            return list(v)
        if isinstance(v, dict):
            return list(v.keys())
        if isinstance(v, GenList):
            return v.take()
        if isinstance(v, Arr):
            return self.np.iterate(v)
        if isinstance(v, (TArr, SymRange, SymList, SymGen)):
            raise Untranslatable("iteration over a sequence of symbolic extent (needs a loop invariant)")
        if isinstance(v, Obj):
            f, _ = obj_cls(v).lookup("__iter__")
            if f is not None:
                return self.iterate(self.call(BoundMethod(f, v), [], {}))
            raise Raised(TypeError(f"'{obj_cls(v).name}' object is not iterable"))
        if v is None or isinstance(v, (int, float, bool, Sym, NpScalar)):
            raise Raised(TypeError(f"'{self.type_name(v)}' object is not iterable"))
        if isinstance(v, (type({}.keys()), type({}.values()), type({}.items()), map, zip, filter, enumerate, reversed)):
            return list(v)
        if hasattr(v, "py_iter"):
            return v.py_iter()
        raise Untranslatable(f"iteration over {type(v).__name__}")

    def isinstance(self, v, t):
        if isinstance(t, tuple):
            return any(self.isinstance(v, x) for x in t)
        if isinstance(t, RepoClass):
            return isinstance(v, Obj) and obj_cls(v).issubclass(t)
        if isinstance(t, NpTypeMarker):
            from . import npstubs
            return npstubs.isinstance_np(self, v, t)
        if t is int:
            r = raw(v) if isinstance(v, NpScalar) else v
            if isinstance(v, NpScalar):
                return False
            if isinstance(v, Sym):
                return v.kind in ("int", "bool") and not v.np
            return isinstance(v, int)
        if t is float:
            if isinstance(v, NpScalar):
                return v.dtype == _np.float64
            if isinstance(v, Sym):
                return v.kind == "float" and (not v.np or True)  # np.float64 subclasses float
            return isinstance(v, float)
        if t is bool:
            if isinstance(v, Sym):
                return v.kind == "bool" and not v.np
            return isinstance(v, bool)
        if t is complex:
            return False
        if t is str:
            return isinstance(v, str)
        if t in (list, tuple, dict, set, frozenset, slice, type(None), range):
            return isinstance(v, t)
        if t is object:
            return True
        if t is type:
            return isinstance(v, (type, RepoClass))
        if isinstance(t, type) and issubclass(t, BaseException):
            if isinstance(v, Obj):
                return any(isinstance(c, type) and issubclass(c, t) for c in obj_cls(v).mro)
            return isinstance(v, t)
        from . import pystubs
        return pystubs.isinstance_foreign(self, v, t)

    # ------------------------------------------------------------------ snapshots (old-state)
    def snapshot(self, root, memo=None):
        """Deep copy of the interpreter heap reachable from root (aliasing preserved)."""
        if memo is None:
            memo = {}
        return self._snap(root, memo)

    def _snap(self, v, memo):
        i = id(v)
        if i in memo:
            return memo[i][1]
        if isinstance(v, Obj):
            o = Obj(obj_cls(v))
            memo[i] = (v, o)
            d = obj_dict(o)
            for k, x in obj_dict(v).items():
                d[k] = self._snap(x, memo)
            return o
        if isinstance(v, Arr):
            key = ("store", id(v.store))
            if key in memo:
                st = memo[key][1]
            else:
                st = list(v.store)
                memo[key] = (v.store, st)
            a = Arr(st, list(v.pos), v.shape, v.dtype)
            a.writeable = v.writeable
            memo[i] = (v, a)
            return a
        if isinstance(v, TArr):
            a = TArr(v.term, v.shape, v.dtype)
            memo[i] = (v, a)
            return a
        if isinstance(v, list):
            l = []
            memo[i] = (v, l)
            l.extend(self._snap(x, memo) for x in v)
            return l
        if isinstance(v, dict):
            d = {}
            memo[i] = (v, d)
            for k, x in v.items():
                d[k] = self._snap(x, memo)
            return d
        if isinstance(v, tuple):
            t = tuple(self._snap(x, memo) for x in v)
            return t
        if isinstance(v, set):
            return set(v)
        if isinstance(v, GenList):
            g = GenList(list(v.items))
            g.consumed = v.consumed
            memo[i] = (v, g)
            return g
        if hasattr(v, "py_snapshot"):
            r = v.py_snapshot(self, memo)
            memo[i] = (v, r)
            return r
        return v


def _is_scalar(v):
    return isinstance(v, (bool, int, float, Sym, NpScalar))


_BINOPS = {ast.Add: "+", ast.Sub: "-", ast.Mult: "*", ast.Div: "/", ast.FloorDiv: "//", ast.Mod: "%",
           ast.Pow: "**", ast.BitAnd: "&", ast.BitOr: "|", ast.BitXor: "^", ast.LShift: "<<", ast.RShift: ">>",
           ast.MatMult: "@"}
_CMPOPS = {ast.Lt: "<", ast.LtE: "<=", ast.Gt: ">", ast.GtE: ">=", ast.Eq: "==", ast.NotEq: "!="}
_DUNDER = {"+": "__add__", "-": "__sub__", "*": "__mul__", "/": "__truediv__", "//": "__floordiv__",
           "%": "__mod__", "**": "__pow__", "<<": "__lshift__", ">>": "__rshift__", "&": "__and__", "|": "__or__",
           "<": "__lt__", "<=": "__le__", ">": "__gt__", ">=": "__ge__", "==": "__eq__", "!=": "__ne__",
           "@": "__matmul__", "^": "__xor__"}
_RDUNDER = {"+": "__radd__", "-": "__rsub__", "*": "__rmul__", "/": "__rtruediv__", "//": "__rfloordiv__",
            "%": "__rmod__", "**": "__rpow__", "<<": "__rlshift__", ">>": "__rrshift__", "&": "__rand__",
            "|": "__ror__", "@": "__rmatmul__", "^": "__rxor__"}
_IOPS = {"+": "__iadd__", "-": "__isub__", "*": "__imul__", "/": "__itruediv__", "//": "__ifloordiv__",
         "%": "__imod__", "**": "__ipow__", "<<": "__ilshift__", ">>": "__irshift__", "&": "__iand__", "|": "__ior__"}
