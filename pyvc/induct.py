"""Recursive spec functions over arrays of symbolic extent and the inductive lemmas that connect them.

Every lemma is proved on every run by an explicit induction scheme: z3 discharges the base case and the step for an
arbitrary n (fresh constant) under the lemma's hypotheses H; the conclusion `H -> P(N)` may then be assumed as a
*lemma instance* (loop hints).  The only trusted step is the induction principle over the naturals itself.
"""
from __future__ import annotations

import z3

_F = {}
SPEC = {}     # name of the recursive spec function -> (rec decl, uninterpreted twin, unfold(twin, args) -> defining equation's rhs)
IntArr = z3.ArraySort(z3.IntSort(), z3.IntSort())
RealArr = z3.ArraySort(z3.IntSort(), z3.RealSort())


def _wsort(kind):
    return (z3.RealSort(), RealArr) if kind == "float" else (z3.IntSort(), IntArr)


def inbin_term(x, lo, hi, closed):
    return z3.And(lo <= x, z3.If(closed, x <= hi, x < hi))


def wsum_fn(kind):
    """wsum(D, W, lo, hi, closed, n) = sum of W[i] over i < n with lo <= D[i] < hi  (<= hi when closed)"""
    key = ("wsum", kind)
    if key not in _F:
        s, A = _wsort(kind)
        f = z3.RecFunction(f"wsum_{kind}", RealArr, A, z3.RealSort(), z3.RealSort(), z3.BoolSort(), z3.IntSort(), s)
        D, W = z3.Const("D", RealArr), z3.Const("W", A)
        lo, hi, c, n = z3.Real("lo"), z3.Real("hi"), z3.Bool("c"), z3.Int("n")
        zero = z3.RealVal(0) if kind == "float" else z3.IntVal(0)
        z3.RecAddDefinition(f, [D, W, lo, hi, c, n],
                            z3.If(n <= 0, zero, f(D, W, lo, hi, c, n - 1)
                                  + z3.If(inbin_term(z3.Select(D, n - 1), lo, hi, c), z3.Select(W, n - 1), zero)))
        _F[key] = f
        register(f, lambda g, D, W, lo, hi, c, n: z3.If(n <= 0, zero, g(D, W, lo, hi, c, n - 1)
                                                        + z3.If(inbin_term(z3.Select(D, n - 1), lo, hi, c), z3.Select(W, n - 1), zero)))
    return _F[key]


def side_fn(kind, which):
    """below(D, W, x, n) = sum of W[i] over i < n with D[i] < x;   above: with D[i] > x"""
    key = (which, kind)
    if key not in _F:
        s, A = _wsort(kind)
        f = z3.RecFunction(f"{which}_{kind}", RealArr, A, z3.RealSort(), z3.IntSort(), s)
        D, W = z3.Const("D", RealArr), z3.Const("W", A)
        x, n = z3.Real("x"), z3.Int("n")
        zero = z3.RealVal(0) if kind == "float" else z3.IntVal(0)
        d = z3.Select(D, n - 1)
        z3.RecAddDefinition(f, [D, W, x, n],
                            z3.If(n <= 0, zero, f(D, W, x, n - 1) + z3.If(d < x if which == "below" else d > x, z3.Select(W, n - 1), zero)))
        _F[key] = f

        def rhs(g, D, W, x, n):
            d = z3.Select(D, n - 1)
            return z3.If(n <= 0, zero, g(D, W, x, n - 1) + z3.If(d < x if which == "below" else d > x, z3.Select(W, n - 1), zero))
        register(f, rhs)
    return _F[key]


def register(rec, rhs):
    """rec: the RecFunction; rhs(g, *args): its defining right-hand side with recursive calls going to g"""
    twin = z3.Function(rec.name() + "!uf", *[rec.domain(i) for i in range(rec.arity())], rec.range())
    SPEC[rec.name()] = (rec, twin, rhs)


def _apps(t, acc, seen):
    """ground applications of the uninterpreted twins (not below a quantifier or lambda)"""
    if t.get_id() in seen:
        return
    seen.add(t.get_id())
    if z3.is_quantifier(t) or not z3.is_app(t):
        return
    if t.decl().name().endswith("!uf"):
        acc.append(t)
    for ch in t.children():
        _apps(ch, acc, seen)


def mentions_spec(terms):
    seen = set()

    def go(t):
        if t.get_id() in seen:
            return False
        seen.add(t.get_id())
        if z3.is_quantifier(t):
            return go(t.body())
        if z3.is_app(t):
            if t.decl().name() in SPEC:
                return True
            return any(go(ch) for ch in t.children())
        return False
    return any(go(t) for t in terms)


def with_unfoldings(terms, depth=2):
    """the terms with every recursive spec function replaced by its uninterpreted twin, plus the defining equation of every
    ground application (and of the applications those equations introduce, `depth` rounds).  Every added formula is an
    instance of a definition, so a proof from them is a proof about the recursive functions."""
    subs = [(rec, twin(*[z3.Var(i, rec.domain(i)) for i in range(rec.arity())])) for rec, twin, _ in SPEC.values()]
    out = [z3.substitute_funs(t, *subs) for t in terms]
    rhs_of = {twin.name(): (twin, rhs) for _, twin, rhs in SPEC.values()}
    seen, done, frontier = set(), set(), list(out)
    axioms = []
    for _ in range(depth):
        acc = []
        for t in frontier:
            _apps(t, acc, seen)
        frontier = []
        for a in acc:
            if a.get_id() in done:
                continue
            done.add(a.get_id())
            twin, rhs = rhs_of[a.decl().name()]
            ax = a == rhs(twin, *a.children())
            axioms.append(ax)
            frontier.append(ax)
    return out, axioms


def insertion_point(D, N, r, v, side):
    """the contract of np.searchsorted(D[:N], v, side) == r"""
    j = z3.Int("%ip_j")
    x = z3.Select(D, j)
    before, after = (x < v, v <= x) if side == "left" else (x <= v, v < x)
    return z3.And(r >= 0, r <= N, z3.ForAll([j], z3.Implies(z3.And(j >= 0, j < r), before)),
                  z3.ForAll([j], z3.Implies(z3.And(j >= r, j < N), after)))


def _min(a, b):
    return z3.If(a <= b, a, b)


class Lemma:
    """name, hyps(args), P(args, n), bound N(args); proved by induction on n in 0..N"""

    def __init__(self, name, params, hyps, stmt, upto, assumed=None, uses=None):
        self.name, self.params, self.hyps, self.stmt, self.upto = name, params, hyps, stmt, upto
        self.assumed = assumed      # text: the lemma is NOT proved here (listed as an assumption in the evidence)
        self.uses = uses            # uses(*args, n) -> instances (H -> C) of OTHER lemmas available in the step (those lemmas
        #                             are proved on their own; an instance of a proved lemma is a valid formula)

    def goals(self):
        """closed proof obligations [(label, formula)] over fresh constants"""
        if self.assumed:
            return []
        args = [z3.Const(f"%L_{self.name}_{nm}", srt) for nm, srt in self.params]
        n = z3.Int(f"%L_{self.name}_n")
        H, N = self.hyps(*args), self.upto(*args)
        extra = list(self.uses(*args, n)) if self.uses else []
        return [("base", z3.Implies(z3.And(H, *extra), self.stmt(*args, z3.IntVal(0)))),
                ("step", z3.Implies(z3.And(H, n >= 0, n < N, self.stmt(*args, n), *extra), self.stmt(*args, n + 1)))]

    def instance(self, *args):
        """H(args) -> P(args, N(args))"""
        return z3.Implies(self.hyps(*args), self.stmt(*args, self.upto(*args)))

    def closed_instance(self, *outer):
        """the last len(params) - len(outer) parameters universally quantified (the hypotheses must not mention them):
        H(outer) -> forall rest. P(outer, rest, N)"""
        rest = [z3.Const(f"%C_{self.name}_{nm}", srt) for nm, srt in self.params[len(outer):]]
        args = list(outer) + rest
        return z3.Implies(self.hyps(*args), z3.ForAll(rest, self.stmt(*args, self.upto(*args))))


def slice_sum_lemma(kind):
    """sorted positions a = searchsorted(D, lo, left), b = searchsorted(D, hi, right if closed else left):
    the slice sum  sumr(W, a, b)  is the weighted count  wsum(D, W, lo, hi, closed, N)."""
    from .tarr import sum_fn
    s, A = _wsort(kind)
    params = [("D", RealArr), ("W", A), ("N", z3.IntSort()), ("lo", z3.RealSort()), ("hi", z3.RealSort()), ("c", z3.BoolSort()),
              ("a", z3.IntSort()), ("b", z3.IntSort())]

    def hyps(D, W, N, lo, hi, c, a, b):
        return z3.And(N >= 0, insertion_point(D, N, a, lo, "left"),
                      z3.If(c, insertion_point(D, N, b, hi, "right"), insertion_point(D, N, b, hi, "left")))

    def stmt(D, W, N, lo, hi, c, a, b, n):
        return wsum_fn(kind)(D, W, lo, hi, c, n) == sum_fn(kind)(W, _min(a, n), _min(b, n))

    return Lemma(f"slice_sum_{kind}", params, hyps, stmt, lambda D, W, N, *r: N)


def below_lemma(kind):
    """a = searchsorted(D, x, left):  sumr(W, 0, a) = sum of the weights of the values below x"""
    from .tarr import sum_fn
    s, A = _wsort(kind)
    params = [("D", RealArr), ("W", A), ("N", z3.IntSort()), ("x", z3.RealSort()), ("a", z3.IntSort())]

    def hyps(D, W, N, x, a):
        return z3.And(N >= 0, insertion_point(D, N, a, x, "left"))

    def stmt(D, W, N, x, a, n):
        return side_fn(kind, "below")(D, W, x, n) == sum_fn(kind)(W, z3.IntVal(0), _min(a, n))

    return Lemma(f"below_{kind}", params, hyps, stmt, lambda D, W, N, *r: N)


def above_lemma(kind):
    """b = searchsorted(D, x, right):  sumr(W, b, N) = sum of the weights of the values above x"""
    from .tarr import sum_fn
    s, A = _wsort(kind)
    params = [("D", RealArr), ("W", A), ("N", z3.IntSort()), ("x", z3.RealSort()), ("b", z3.IntSort())]

    def hyps(D, W, N, x, b):
        return z3.And(N >= 0, insertion_point(D, N, b, x, "right"))

    def stmt(D, W, N, x, b, n):
        return side_fn(kind, "above")(D, W, x, n) == sum_fn(kind)(W, _min(b, n), n)

    return Lemma(f"above_{kind}", params, hyps, stmt, lambda D, W, N, *r: N)


CVC5 = "/usr/bin/cvc5"
SECOND_BACKEND = False       # thorough tier: every lemma obligation is also given to cvc5


def cvc5_check(formulas, timeout_ms=20000):
    """'unsat' | 'sat' | 'unknown' | 'absent' for the conjunction of the formulas (SMT-LIB 2 text produced by z3, solved by cvc5)"""
    import os, subprocess, tempfile
    if not os.path.exists(CVC5):
        return "absent"
    s = z3.Solver()
    s.add(*formulas)
    f = tempfile.NamedTemporaryFile("w", suffix=".smt2", delete=False)
    f.write("(set-logic ALL)\n" + s.to_smt2())
    f.close()
    try:
        r = subprocess.run([CVC5, f"--tlimit={timeout_ms}", f.name], capture_output=True, text=True, timeout=timeout_ms / 1000 + 10)
        out = r.stdout.strip().splitlines()
        return out[0] if out and out[0] in ("unsat", "sat", "unknown") else "unknown"
    except Exception:
        return "unknown"
    finally:
        os.unlink(f.name)


def prove(lemma, timeout_ms=20000):
    """[(label, status, seconds, reason)]; reason carries the second back end's answer when it was asked"""
    import time
    out = []
    for label, g in lemma.goals():
        t0 = time.time()
        terms, axioms = with_unfoldings([z3.Not(g)])
        s = z3.Solver()
        s.set("timeout", timeout_ms)
        s.add(*terms)
        s.add(*axioms)
        r = s.check()
        if r != z3.unsat:      # second attempt: z3's own unfolding of the recursive definitions
            s = z3.Solver()
            s.set("timeout", timeout_ms)
            s.add(z3.Not(g))
            r = s.check()
        status = "proved" if r == z3.unsat else ("refuted" if r == z3.sat else "unknown")
        reason = s.reason_unknown() if r == z3.unknown else ""
        if SECOND_BACKEND and status == "proved":
            second = cvc5_check(terms + axioms, timeout_ms)
            reason = "cvc5: " + second
            if second == "sat":          # the two solvers disagree: nothing is believed
                status = "unknown"
                reason = "z3 says unsat, cvc5 says sat"
        out.append((label, status, time.time() - t0, reason))
    return out


def permutation_lemma(kind):
    """DA = D o p, WA = W o p for a permutation p of 0..N-1: every weighted count over (DA, WA) equals the one over (D, W).
    ASSUMED (finite sums are invariant under permutation of the index set; Mathlib: Equiv.sum_comp) -- z3 is not asked to
    prove it; lean/perm_sum.lean states and proves it over Fin N."""
    s, A = _wsort(kind)
    params = [("D", RealArr), ("W", A), ("DA", RealArr), ("WA", A), ("p", IntArr), ("N", z3.IntSort())]

    def hyps(D, W, DA, WA, p, N):
        i, j = z3.Int("%pl_i"), z3.Int("%pl_j")
        return z3.And(N >= 0,
                      z3.ForAll([i], z3.Implies(z3.And(i >= 0, i < N), z3.And(z3.Select(p, i) >= 0, z3.Select(p, i) < N))),
                      z3.ForAll([i, j], z3.Implies(z3.And(i >= 0, i < j, j < N), z3.Select(p, i) != z3.Select(p, j))),
                      z3.ForAll([i], z3.Implies(z3.And(i >= 0, i < N), z3.And(z3.Select(DA, i) == z3.Select(D, z3.Select(p, i)),
                                                                              z3.Select(WA, i) == z3.Select(W, z3.Select(p, i))))))

    def stmt(D, W, DA, WA, p, N, n):
        lo, hi, x, c = z3.Real("%pl_lo"), z3.Real("%pl_hi"), z3.Real("%pl_x"), z3.Bool("%pl_c")
        from .tarr import sum_fn
        return z3.And(sum_fn(kind)(WA, z3.IntVal(0), n) == sum_fn(kind)(W, z3.IntVal(0), n),
                      z3.ForAll([lo, hi, c], wsum_fn(kind)(DA, WA, lo, hi, c, n) == wsum_fn(kind)(D, W, lo, hi, c, n)),
                      z3.ForAll([x], side_fn(kind, "below")(DA, WA, x, n) == side_fn(kind, "below")(D, W, x, n)),
                      z3.ForAll([x], side_fn(kind, "above")(DA, WA, x, n) == side_fn(kind, "above")(D, W, x, n)))

    return Lemma(f"permutation_{kind}", params, hyps, stmt, lambda D, W, DA, WA, p, N: N,
                 assumed="finite sums are invariant under a permutation of the index set (Mathlib Equiv.sum_comp; lean/perm_sum.lean)")


# ---- the accounting identity: contents of consecutive bins + underflow + overflow = total weight --------------------------
BinArr = z3.ArraySort(z3.IntSort(), z3.IntSort(), z3.RealSort())


def adjacent_lemma(kind):
    """[lo, mid) and [mid, hi) (or [mid, hi]) together are [lo, hi) (or [lo, hi])"""
    s, A = _wsort(kind)
    params = [("D", RealArr), ("W", A), ("N", z3.IntSort()), ("lo", z3.RealSort()), ("mid", z3.RealSort()), ("hi", z3.RealSort()), ("c", z3.BoolSort())]
    f = wsum_fn(kind)
    return Lemma(f"adjacent_{kind}", params, lambda D, W, N, lo, mid, hi, c: z3.And(N >= 0, lo <= mid, mid <= hi),
                 lambda D, W, N, lo, mid, hi, c, n: f(D, W, lo, mid, z3.BoolVal(False), n) + f(D, W, mid, hi, c, n) == f(D, W, lo, hi, c, n),
                 lambda D, W, N, *r: N)


def partition_lemma(kind):
    """below lo + inside [lo, hi] + above hi = everything"""
    from .tarr import sum_fn
    s, A = _wsort(kind)
    params = [("D", RealArr), ("W", A), ("N", z3.IntSort()), ("lo", z3.RealSort()), ("hi", z3.RealSort())]
    return Lemma(f"partition_{kind}", params, lambda D, W, N, lo, hi: z3.And(N >= 0, lo <= hi),
                 lambda D, W, N, lo, hi, n: side_fn(kind, "below")(D, W, lo, n) + wsum_fn(kind)(D, W, lo, hi, z3.BoolVal(True), n)
                 + side_fn(kind, "above")(D, W, hi, n) == sum_fn(kind)(W, z3.IntVal(0), n),
                 lambda D, W, N, *r: N)


def _rising_consecutive(B, nb):
    j = z3.Int("%rc_j")
    return z3.And(nb >= 1, z3.ForAll([j], z3.Implies(z3.And(j >= 0, j < nb), z3.Select(B, j, 0) < z3.Select(B, j, 1))),
                  z3.ForAll([j], z3.Implies(z3.And(j >= 0, j < nb - 1), z3.Select(B, j, 1) == z3.Select(B, j + 1, 0))))


def monotone_lemma():
    """consecutive rising bins: no left edge lies below the first one"""
    params = [("B", BinArr), ("nb", z3.IntSort())]

    def stmt(B, nb, n):
        j = z3.Int("%mono_j")
        return z3.ForAll([j], z3.Implies(z3.And(j >= 0, j <= n, j < nb), z3.Select(B, 0, 0) <= z3.Select(B, j, 0)))
    return Lemma("monotone_edges", params, _rising_consecutive, stmt, lambda B, nb: nb)


def bins_sum_lemma(kind):
    """F[j] = weighted count of bin j for every j: the sum of the first m contents is the weighted count of
    [first left edge, right edge of bin m-1)  -- closed when m is the number of bins"""
    from .tarr import sum_fn
    s, A = _wsort(kind)
    params = [("D", RealArr), ("W", A), ("N", z3.IntSort()), ("B", BinArr), ("nb", z3.IntSort()), ("F", A)]
    f = wsum_fn(kind)

    def hyps(D, W, N, B, nb, F):
        j = z3.Int("%bs_j")
        return z3.And(N >= 0, _rising_consecutive(B, nb),
                      z3.ForAll([j], z3.Implies(z3.And(j >= 0, j < nb),
                                                z3.Select(F, j) == f(D, W, z3.Select(B, j, 0), z3.Select(B, j, 1), j == nb - 1, N))))

    def stmt(D, W, N, B, nb, F, n):      # m = n + 1 bins summed
        m = n + 1
        return z3.Implies(m <= nb, sum_fn(kind)(F, z3.IntVal(0), m) == f(D, W, z3.Select(B, 0, 0), z3.Select(B, m - 1, 1), m == nb, N))

    def uses(D, W, N, B, nb, F, n):
        m = n + 1      # the step goes from m to m + 1 bins: bin m is appended
        return [adjacent_lemma(kind).instance(D, W, N, z3.Select(B, 0, 0), z3.Select(B, m, 0), z3.Select(B, m, 1), m + 1 == nb),
                monotone_lemma().instance(B, nb)]
    return Lemma(f"bins_sum_{kind}", params, hyps, stmt, lambda D, W, N, B, nb, F: nb - 1, uses=uses)


def constant_sum_lemma():
    """the sum of n ones is n (unweighted histograms: the total weight is the number of entries)"""
    from .tarr import sum_fn
    one = z3.K(z3.IntSort(), z3.IntVal(1))
    return Lemma("sum_of_ones", [("N", z3.IntSort())], lambda N: N >= 0,
                 lambda N, n: sum_fn("int")(one, z3.IntVal(0), n) == n, lambda N: N)


def false_lemmas():
    """deliberately wrong variants: the prover must NOT accept them (vacuity guard of the lemma machinery, run with the lemmas)"""
    from .tarr import sum_fn
    out = []
    for kind in ("int",):
        s, A = _wsort(kind)
        # the closed interval replaced by the half-open one: an entry exactly on `hi` is counted nowhere
        params = [("D", RealArr), ("W", A), ("N", z3.IntSort()), ("lo", z3.RealSort()), ("hi", z3.RealSort())]
        out.append(Lemma(f"WRONG_partition_{kind}", params, lambda D, W, N, lo, hi: z3.And(N >= 0, lo <= hi),
                         lambda D, W, N, lo, hi, n: side_fn(kind, "below")(D, W, lo, n) + wsum_fn(kind)(D, W, lo, hi, z3.BoolVal(False), n)
                         + side_fn(kind, "above")(D, W, hi, n) == sum_fn(kind)(W, z3.IntVal(0), n), lambda D, W, N, *r: N))
        # the right insertion point used for the left edge
        good = slice_sum_lemma(kind)
        out.append(Lemma(f"WRONG_slice_sum_{kind}", good.params,
                         lambda D, W, N, lo, hi, c, a, b: z3.And(N >= 0, insertion_point(D, N, a, lo, "right"),
                                                                 z3.If(c, insertion_point(D, N, b, hi, "right"), insertion_point(D, N, b, hi, "left"))),
                         good.stmt, good.upto))
    return out


def nonneg_lemma(kind):
    """non-negative weights: every weighted count is non-negative   (use closed_instance(D, W, N): for all lo, hi, c)"""
    s, A = _wsort(kind)
    params = [("D", RealArr), ("W", A), ("N", z3.IntSort()), ("lo", z3.RealSort()), ("hi", z3.RealSort()), ("c", z3.BoolSort())]

    def hyps(D, W, N, lo, hi, c):
        i = z3.Int("%nn_i")
        return z3.And(N >= 0, z3.ForAll([i], z3.Implies(z3.And(i >= 0, i < N), z3.Select(W, i) >= 0)))
    return Lemma(f"nonneg_{kind}", params, hyps, lambda D, W, N, lo, hi, c, n: wsum_fn(kind)(D, W, lo, hi, c, n) >= 0, lambda D, W, N, *r: N)


def nonneg_side_lemma(kind, which):
    s, A = _wsort(kind)
    params = [("D", RealArr), ("W", A), ("N", z3.IntSort()), ("x", z3.RealSort())]

    def hyps(D, W, N, x):
        i = z3.Int("%nn_i")
        return z3.And(N >= 0, z3.ForAll([i], z3.Implies(z3.And(i >= 0, i < N), z3.Select(W, i) >= 0)))
    return Lemma(f"nonneg_{which}_{kind}", params, hyps, lambda D, W, N, x, n: side_fn(kind, which)(D, W, x, n) >= 0, lambda D, W, N, *r: N)


def sum_split_lemma(kind):
    """sumr(A, lo, hi) = sumr(A, lo, mid) + sumr(A, mid, hi) for lo <= mid <= hi"""
    from .tarr import sum_fn
    s, A = _wsort(kind)
    params = [("A", A), ("lo", z3.IntSort()), ("mid", z3.IntSort()), ("hi", z3.IntSort())]
    f = sum_fn(kind)
    return Lemma(f"sum_split_{kind}", params, lambda A, lo, mid, hi: z3.And(lo <= mid, mid <= hi),
                 lambda A, lo, mid, hi, n: f(A, lo, mid + n) == f(A, lo, mid) + f(A, mid, mid + n),
                 lambda A, lo, mid, hi: hi - mid)


def sum_shift_lemma(kind):
    """B[j] = A[off + j] for j < n: sumr(B, 0, n) = sumr(A, off, off + n)"""
    from .tarr import sum_fn
    s, A = _wsort(kind)
    params = [("A", A), ("B", A), ("off", z3.IntSort()), ("len", z3.IntSort())]
    f = sum_fn(kind)

    def hyps(A_, B, off, ln):
        j = z3.Int("%sh_j")
        return z3.And(ln >= 0, z3.ForAll([j], z3.Implies(z3.And(j >= 0, j < ln), z3.Select(B, j) == z3.Select(A_, off + j))))
    return Lemma(f"sum_shift_{kind}", params, hyps,
                 lambda A_, B, off, ln, n: f(B, z3.IntVal(0), n) == f(A_, off, off + n), lambda A_, B, off, ln: ln)


def sum_add_lemma(kind):
    """C[j] = A[j] + B[j] for j < n: sumr(C, 0, n) = sumr(A, 0, n) + sumr(B, 0, n)"""
    from .tarr import sum_fn
    s, A = _wsort(kind)
    params = [("A", A), ("B", A), ("C", A), ("len", z3.IntSort())]
    f = sum_fn(kind)

    def hyps(A_, B, C, ln):
        j = z3.Int("%sa_j")
        return z3.And(ln >= 0, z3.ForAll([j], z3.Implies(z3.And(j >= 0, j < ln), z3.Select(C, j) == z3.Select(A_, j) + z3.Select(B, j))))
    return Lemma(f"sum_add_{kind}", params, hyps,
                 lambda A_, B, C, ln, n: f(C, z3.IntVal(0), n) == f(A_, z3.IntVal(0), n) + f(B, z3.IntVal(0), n), lambda A_, B, C, ln: ln)
