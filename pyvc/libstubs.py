"""Assumed contracts of third-party containers (C17): pandas / polars Series and DataFrames as far as the adapters in
physt.compat use them.  Written from the libraries' documentation; the cross-check (real pandas / polars objects fed
to the real adapters on sampled inputs) is the conformance run for these stubs.

Model: a Series is a named 1-D float/int column (an `Arr`, NaN marks missing values in pandas; polars has separate
nulls, modelled by a flag), a DataFrame an ordered mapping column name -> Series of equal length.
"""
from __future__ import annotations

import numpy as _np

from .values import Sym, Arr, Obj, NpScalar, Untranslatable, Raised, raw, logic_or, logic_not


class StubType:
    """stands for pandas.Series, polars.DataFrame, ...: usable in isinstance, singledispatch registration, construction"""

    def __init__(self, lib, name, ctor=None):
        self.lib = lib
        self.name = name
        self.ctor = ctor

    def __repr__(self):
        return f"<{self.lib}.{self.name}>"

    def py_isinstance(self, v):
        return isinstance(v, (Series if self.name == "Series" else Frame)) and v.lib == self.lib if self.name in ("Series", "DataFrame") else False

    def py_call(self, *a, **k):
        if self.ctor is None:
            raise Untranslatable(f"construction of {self!r}")
        return self.ctor(*a, **k)

    def py_getattr(self, name):
        if name == "__name__":
            return self.name
        if self.ctor is None and not name.startswith("__"):
            # a library type without a stub (IntervalIndex, ...): its class methods are outside the subset, not absent
            raise Untranslatable(f"{self.lib}.{self.name}.{name}")
        raise Raised(AttributeError(name))


class DtypeMarker:
    def __init__(self, name, numeric):
        self.name = name
        self.numeric = numeric

    def __repr__(self):
        return self.name

    def __eq__(self, o):
        return isinstance(o, DtypeMarker) and o.name == self.name

    def __hash__(self):
        return hash(self.name)


class Series:
    def __init__(self, I, lib, values, name=None, numeric=True, has_nulls=False):
        self.I = I
        self.lib = lib
        self.values = values         # Arr (1-D)
        self.name = name
        self.numeric = numeric
        self.has_nulls = has_nulls   # polars nulls (concrete flag)

    def __repr__(self):
        return f"<{self.lib}.Series {self.name!r} {self.values!r}>"

    def py_snapshot(self, I, memo):
        return Series(I, self.lib, I._snap(self.values, memo), self.name, self.numeric, self.has_nulls)

    def py_len(self):
        return self.values.shape[0]

    def py_iter(self):
        return self.I.np.iterate(self.values)

    def py_getitem(self, idx):
        return self.I.np.getitem(self.values, idx)

    def py_getattr(self, name):
        from .interp import Builtin
        I, np_ = self.I, self.I.np
        if name == "name":
            return self.name
        if name == "values":
            return self.values
        if name == "shape":
            return self.values.shape
        if name == "size":
            return self.values.size
        if name == "dtype":
            if self.lib == "polars":
                return DtypeMarker("Float64" if self.values.dtype.kind == "f" else "Int64", True) if self.numeric else DtypeMarker("Utf8", False)
            return self.values.dtype if self.numeric else _np.dtype(object)
        if name == "physt":
            cls = I.lib_accessors.get((self.lib, "series"))
            if cls is None:
                raise Raised(AttributeError("physt"))
            return I.instantiate(cls, [self], {})
        if self.lib == "pandas":
            if name == "astype":
                def astype(dt):
                    if not self.numeric:
                        raise Raised(ValueError("could not convert string to float"))
                    return Series(I, self.lib, np_.m_astype(self.values, dt), self.name, True)
                return Builtin("Series.astype", astype)
            if name in ("notna", "notnull"):
                return Builtin("Series.notna", lambda: Series(I, self.lib, np_.unary("~", np_.f_isnan(self.values)) if self.values.dtype.kind == "f"
                                                             else np_.f_ones(self.values.shape, bool), self.name))
            if name in ("isna", "isnull"):
                return Builtin("Series.isna", lambda: Series(I, self.lib, np_.f_isnan(self.values) if self.values.dtype.kind == "f"
                                                            else np_.f_zeros(self.values.shape, bool), self.name))
            if name == "dropna":
                def dropna():
                    if self.values.dtype.kind != "f":
                        return self
                    keep = np_.unary("~", np_.f_isnan(self.values))
                    return Series(I, self.lib, np_.mask_select(self.values, keep), self.name)
                return Builtin("Series.dropna", dropna)
            if name == "any":
                return Builtin("Series.any", lambda: np_.m_any(self.values))
            if name == "to_numpy":
                return Builtin("Series.to_numpy", lambda **k: self.values)
        if self.lib == "polars":
            if name == "is_null":
                return Builtin("Series.is_null", lambda: Series(I, self.lib, np_.f_full(self.values.shape, self.has_nulls, bool), self.name))
            if name == "any":
                return Builtin("Series.any", lambda: self.I.truth(np_.m_any(self.values)))
            if name == "to_numpy":
                return Builtin("Series.to_numpy", lambda **k: self.values.copy())
        raise Untranslatable(f"{self.lib}.Series.{name}")


class Frame:
    def __init__(self, I, lib, columns, cols):
        self.I = I
        self.lib = lib
        self.columns = list(columns)
        self.cols = cols       # name -> Series

    def __repr__(self):
        return f"<{self.lib}.DataFrame {self.columns}>"

    def py_snapshot(self, I, memo):
        return Frame(I, self.lib, list(self.columns), {k: v.py_snapshot(I, memo) for k, v in self.cols.items()})

    def nrows(self):
        return self.cols[self.columns[0]].values.shape[0] if self.columns else 0

    def py_len(self):
        return self.nrows()

    def py_getitem(self, key):
        if isinstance(key, (list, tuple)) and not (isinstance(key, tuple) and key in self.cols):
            for k in key:
                if k not in self.cols:
                    raise Raised(KeyError(k))
            return Frame(self.I, self.lib, list(key), {k: self.cols[k] for k in key})
        if key not in self.cols:
            raise Raised(KeyError(key))
        return self.cols[key]

    def matrix(self, dtype=float):
        np_ = self.I.np
        n = self.nrows()
        el = []
        for r in range(n):
            for c in self.columns:
                el.append(self.cols[c].values.elems()[r])
        return np_.mk_arr(el, (n, len(self.columns)), dtype)

    def py_getattr(self, name):
        from .interp import Builtin
        I, np_ = self.I, self.I.np
        if name == "columns":
            return list(self.columns)
        if name == "shape":
            return (self.nrows(), len(self.columns))
        if name == "physt":
            cls = I.lib_accessors.get((self.lib, "frame"))
            if cls is None:
                raise Raised(AttributeError("physt"))
            return I.instantiate(cls, [self], {})
        if name == "items":
            return Builtin("DataFrame.items", lambda: [(c, self.cols[c]) for c in self.columns])
        if self.lib == "pandas":
            if name == "values":
                if any(not self.cols[c].numeric for c in self.columns):
                    raise Untranslatable("values of a non-numeric frame")
                dt = _np.result_type(*[self.cols[c].values.dtype for c in self.columns]) if self.columns else float
                return self.matrix(dt)
            if name == "astype":
                def astype(dt):
                    for c in self.columns:
                        if not self.cols[c].numeric:
                            raise Raised(ValueError("could not convert string to float"))
                    return Frame(I, self.lib, self.columns, {c: Series(I, self.lib, np_.m_astype(self.cols[c].values, dt), c) for c in self.columns})
                return Builtin("DataFrame.astype", astype)
            if name == "isna":
                return Builtin("DataFrame.isna", lambda: Frame(I, self.lib, self.columns, {c: I.call(self.cols[c].py_getattr("isna"), [], {}) for c in self.columns}))
            if name == "any":
                # DataFrame.any() reduces over the index: ONE VALUE PER COLUMN (axis=0 is the default)
                def any_(axis=0):
                    if axis in (0, "index"):
                        vals = [raw(np_.m_any(self.cols[c].values)) for c in self.columns]
                        return Series(I, self.lib, np_.mk_arr(vals, (len(vals),), bool), None)
                    n = self.nrows()
                    vals = []
                    for r in range(n):
                        acc = False
                        for c in self.columns:
                            acc = logic_or(acc, self.cols[c].values.elems()[r]) if acc is not False else self.cols[c].values.elems()[r]
                        vals.append(raw(acc))
                    return Series(I, self.lib, np_.mk_arr(vals, (n,), bool), None)
                return Builtin("DataFrame.any", any_)
            if name == "dropna":
                def dropna():
                    n = self.nrows()
                    keep = []
                    for r in range(n):
                        bad = False
                        for c in self.columns:
                            v = self.cols[c].values
                            if v.dtype.kind == "f":
                                e = np_.f_isnan(Arr.from_list([v.elems()[r]], (1,), v.dtype)).elems()[0]
                                bad = logic_or(bad, e) if bad is not False else e
                        keep.append(not I.truth(bad) if not isinstance(bad, bool) else not bad)
                    return Frame(I, self.lib, self.columns, {c: Series(I, self.lib, Arr.from_list([x for x, k in zip(self.cols[c].values.elems(), keep) if k],
                                                                                                (sum(keep),), self.cols[c].values.dtype), c, self.cols[c].numeric)
                                                             for c in self.columns})
                return Builtin("DataFrame.dropna", dropna)
        if self.lib == "polars":
            if name == "select":
                def select(*sel):
                    cols = []
                    for s in sel:
                        if isinstance(s, str):
                            cols.append(s)
                        elif isinstance(s, _NumericSelector):
                            cols += [c for c in self.columns if self.cols[c].numeric]
                        elif isinstance(s, (list, tuple)):
                            cols += list(s)
                        else:
                            raise Untranslatable("polars selector")
                    for c in cols:
                        if c not in self.cols:
                            raise Raised(KeyError(c))
                    return Frame(I, self.lib, cols, {c: self.cols[c] for c in cols})
                return Builtin("DataFrame.select", select)
        raise Untranslatable(f"{self.lib}.DataFrame.{name}")


class _NumericSelector:
    pass


class FakeDaskArray:
    """What physt.compat.dask._run_dask uses of a dask array: name, __dask_keys__(), dask (the graph).  The same class is
    handed to the interpreted and to the real function (the real dask scheduler is not involved: compute=False)."""

    def __init__(self, name, nchunks):
        self.name = name
        self.nchunks = nchunks
        self.dask = {(name, i): ("chunk", i) for i in range(nchunks)}

    def __dask_keys__(self):
        return [(self.name, i) for i in range(self.nchunks)]

    def py_getattr(self, name):
        from .interp import Builtin
        if name == "__dask_keys__":
            return Builtin("__dask_keys__", lambda: self.__dask_keys__())
        return getattr(self, name)

    def py_snapshot(self, I, memo):
        return self


def make_lib_modules(I):
    from .interp import ModuleNS, Builtin
    I.lib_accessors = {}
    mods = {}

    def pd_series(data=None, name=None, **k):
        return Series(I, "pandas", I.np.as_arr(data), name)

    def pd_frame(data=None, **k):
        if isinstance(data, dict):
            cols = {}
            for key, v in data.items():
                arr = v.values if isinstance(v, Series) else I.np.as_arr(v)
                cols[key] = Series(I, "pandas", arr, key)
            return Frame(I, "pandas", list(data.keys()), cols)
        raise Untranslatable("pandas.DataFrame(...) from non-dict")

    def is_numeric_dtype(x):
        if isinstance(x, Series):
            return x.numeric
        if isinstance(x, _np.dtype):
            return x.kind in "iufb"
        raise Untranslatable("is_numeric_dtype")

    def reg(lib, what):
        def outer(name):
            def deco(cls):
                I.lib_accessors[(lib, what)] = cls
                return cls
            return Builtin("accessor-deco", deco)
        return Builtin("register_accessor", outer)

    types = ModuleNS("pandas.api.types", {"is_numeric_dtype": Builtin("is_numeric_dtype", is_numeric_dtype)})
    ext = ModuleNS("pandas.api.extensions", {"register_series_accessor": reg("pandas", "series"),
                                               "register_dataframe_accessor": reg("pandas", "frame")})
    api = ModuleNS("pandas.api", {"types": types, "extensions": ext})
    pd = ModuleNS("pandas", {"Series": StubType("pandas", "Series", pd_series), "DataFrame": StubType("pandas", "DataFrame", pd_frame),
                             "api": api, "IntervalIndex": StubType("pandas", "IntervalIndex"), "__name__": "pandas"})
    mods["pandas"] = pd
    mods["pandas.api"] = api
    mods["pandas.api.types"] = types
    mods["pandas.api.extensions"] = ext

    def pl_series(name=None, values=None, **k):
        return Series(I, "polars", I.np.as_arr(values), name)

    plapi = ModuleNS("polars.api", {"register_series_namespace": reg("polars", "series"), "register_dataframe_namespace": reg("polars", "frame")})
    sel = ModuleNS("polars.selectors", {"numeric": Builtin("numeric", lambda: _NumericSelector())})
    pl = {"Series": StubType("polars", "Series", pl_series), "DataFrame": StubType("polars", "DataFrame"), "api": plapi, "selectors": sel,
          "__name__": "polars"}
    for n in ("Int8", "Int16", "Int32", "Int64", "UInt8", "UInt16", "UInt32", "UInt64", "Float32", "Float64"):
        pl[n] = DtypeMarker(n, True)
    pl["Utf8"] = DtypeMarker("Utf8", False)
    class _DaskArrayType(StubType):
        def py_isinstance(self, v):
            return isinstance(v, FakeDaskArray)
    darr = ModuleNS("dask.array", {"Array": _DaskArrayType("dask", "Array")})
    mods["dask"] = ModuleNS("dask", {"array": darr, "__name__": "dask"})
    mods["dask.array"] = darr
    mods["polars"] = ModuleNS("polars", pl)
    mods["polars.api"] = plapi
    mods["polars.selectors"] = sel
    return mods
