"""Builtins and standard-library stubs for the PyVC interpreter (assumed contracts, see DESIGN.md 2.7).

Everything here is *trusted*: `contextvars.ContextVar`, `contextlib.contextmanager` (implemented in
interp.run_contextmanager), `dataclasses`, `functools.singledispatch`, `json`, `warnings`, `os.environ`.
"""
from __future__ import annotations

import math
import numpy as _np
import z3

from .values import (Sym, Arr, TArr, Obj, NpScalar, GenList, Untranslatable, Raised, obj_cls, obj_dict, raw, SymRange, SymList, SymGen,
                     kind_of, term_of, mk, simp, binop, compare, absval, ite, is_np_scalar, concretize,
                     trunc_term, logic_and, logic_or, is_special_float)


class TypingDummy:
    def __init__(self, name="typing"):
        self.name = name

    def __repr__(self):
        return f"<typing {self.name}>"


class NumberMarker:
    name = "Number"


class IteratorMarker:
    name = "Iterator"


class CtxVar:
    """contextvars.ContextVar, sequential semantics: one cell; set returns a token holding the previous value;
    reset(token) restores it.  (Per-thread / per-task isolation is the *assumed* part of the contract.)"""

    def __init__(self, name, default=None, has_default=True):
        self.name = name
        self.default = default
        self.has_default = has_default
        self.value = _MISSING
        self.writes = 0

    def py_snapshot(self, interp, memo):
        c = CtxVar(self.name, self.default, self.has_default)
        c.value = self.value
        c.writes = self.writes
        return c


def _track(I, var):
    I.ctxvars.append(var)
    return var


class CtxToken:
    def __init__(self, var, old):
        self.var = var
        self.old = old
        self.used = False


_MISSING = object()


class StubCM:
    def __init__(self, enter=None, exit_=None):
        self._enter = enter
        self._exit = exit_

    def py_enter(self):
        return self._enter() if self._enter else None

    def py_exit(self, exc):
        return self._exit(exc) if self._exit else False


def make_modules(I):
    from .interp import ModuleNS, Builtin, RepoFunction, RepoClass, SingleDispatch, ContextManagerFn, PropertyObj

    mods = {}
    td = TypingDummy()

    class _TypingNS(dict):
        def __missing__(self, k):
            return TypingDummy(k)

        def __contains__(self, k):
            return True

    tns = _TypingNS()
    tns["TYPE_CHECKING"] = False
    tns["Iterator"] = IteratorMarker
    tns["cast"] = Builtin("cast", lambda t, v: v)
    tns["overload"] = Builtin("overload", lambda f: f)
    tns["TypeVar"] = Builtin("TypeVar", lambda *a, **k: TypingDummy("TypeVar"))
    mods["typing"] = ModuleNS("typing", tns)
    mods["typing_extensions"] = ModuleNS("typing_extensions", tns)
    mods["numpy.typing"] = ModuleNS("numpy.typing", tns)
    mods["pathlib"] = ModuleNS("pathlib", {"Path": TypingDummy("Path")})

    def _no_files(*a, **k):
        raise Untranslatable("file input/output")
    mods["codecs"] = ModuleNS("codecs", {"open": Builtin("codecs.open", _no_files)})

    # abc
    import abc as _abc

    def abstractmethod(f):
        if isinstance(f, RepoFunction):
            f.attrs["__isabstractmethod__"] = True
        return f
    mods["abc"] = ModuleNS("abc", {"ABC": _abc.ABC, "abstractmethod": Builtin("abstractmethod", abstractmethod),
                                   "ABCMeta": _abc.ABCMeta})

    # numbers
    mods["numbers"] = ModuleNS("numbers", {"Number": NumberMarker, "Real": NumberMarker})
    mods["collections.abc"] = ModuleNS("collections.abc", {"Iterator": IteratorMarker})

    # warnings
    def warn(*a, **k):
        I.warn_log.append(a[0] if a else None)
    mods["warnings"] = ModuleNS("warnings", {
        "warn": Builtin("warn", warn),
        "filterwarnings": Builtin("filterwarnings", lambda *a, **k: None),
        "simplefilter": Builtin("simplefilter", lambda *a, **k: None),
        "catch_warnings": Builtin("catch_warnings", lambda *a, **k: StubCM()),
    })

    # functools
    def singledispatch(f):
        return SingleDispatch(f)

    def wraps(f):
        def deco(g):
            if isinstance(g, RepoFunction) and isinstance(f, RepoFunction):
                g.attrs["__wrapped__"] = f
                g.attrs["__name__"] = f.name
            return g
        return Builtin("wraps-deco", deco)
    def reduce(f, it, *init):
        items = list(I.iterate(it))
        if init:
            acc = init[0]
        else:
            if not items:
                raise Raised(TypeError("reduce() of empty iterable with no initial value"))
            acc = items.pop(0)
        for x in items:
            acc = I.call(f, [acc, x], {})
        return acc
    mods["functools"] = ModuleNS("functools", {"singledispatch": Builtin("singledispatch", singledispatch),
                                               "wraps": Builtin("wraps", wraps), "reduce": Builtin("reduce", reduce)})

    # contextlib
    def suppress(*excs):
        return StubCM(exit_=lambda exc: exc is not None and I.exc_matches(exc, tuple(excs)))
    mods["contextlib"] = ModuleNS("contextlib", {
        "contextmanager": Builtin("contextmanager", lambda f: ContextManagerFn(f)),
        "suppress": Builtin("suppress", suppress),
    })

    # contextvars
    mods["contextvars"] = ModuleNS("contextvars", {
        "ContextVar": Builtin("ContextVar", lambda name, **k: _track(I, CtxVar(name, k.get("default"), "default" in k))),
    })

    # os
    class Environ:
        def __init__(self):
            self.d = dict(getattr(I, "environ", {}))
    env = Environ()
    I._environ = env
    mods["os"] = ModuleNS("os", {"environ": env, "path": ModuleNS("os.path", {})})

    # dataclasses
    import dataclasses as _dc

    def dataclass(*a, **k):
        def apply(cls):
            fields = []
            for c in reversed(cls.mro):
                if isinstance(c, RepoClass) and (c.dataclass or c is cls):
                    for f in c.ns.get("__annotations__", []):
                        if f not in fields:
                            fields.append(f)
            cls.dataclass = {"frozen": bool(k.get("frozen")), "fields": fields}

            def init(self, *args, **kwargs):
                d = obj_dict(self)
                if len(args) > len(fields):
                    raise Raised(TypeError(f"{cls.name}.__init__() takes {len(fields)+1} positional arguments"))
                vals = dict(zip(fields, args))
                for kk, vv in kwargs.items():
                    if kk not in fields:
                        raise Raised(TypeError(f"{cls.name}.__init__() got an unexpected keyword argument '{kk}'"))
                    if kk in vals:
                        raise Raised(TypeError(f"multiple values for '{kk}'"))
                    vals[kk] = vv
                for f in fields:
                    if f in vals:
                        d[f] = vals[f]
                    else:
                        v, owner = cls.lookup(f)
                        if owner is None:
                            raise Raised(TypeError(f"{cls.name}.__init__() missing argument '{f}'"))
                        d[f] = v
                return None
            from .interp import RepoFunction as RF
            cls.ns["__init__"] = _BuiltinMethod("__init__", init)
            return cls
        if a and isinstance(a[0], RepoClass):
            return apply(a[0])
        return Builtin("dataclass-deco", apply)

    def replace(obj, **changes):
        cls = obj_cls(obj)
        if not cls.dataclass:
            raise Raised(TypeError("replace() should be called on dataclass instances"))
        vals = {f: obj_dict(obj)[f] for f in cls.dataclass["fields"]}
        for k in changes:
            if k not in vals:
                raise Raised(TypeError(f"{cls.name}.__init__() got an unexpected keyword argument '{k}'"))
        vals.update(changes)
        return I.instantiate(cls, [], vals)

    mods["dataclasses"] = ModuleNS("dataclasses", {
        "dataclass": Builtin("dataclass", dataclass),
        "replace": Builtin("replace", replace),
        "FrozenInstanceError": _dc.FrozenInstanceError,
        "fields": Builtin("fields", lambda o: [TypingDummy(f) for f in (obj_cls(o) if isinstance(o, Obj) else o).dataclass["fields"]]),
    })

    # json (values: None/bool/int/float/str/list/dict with str keys; tuples become lists)
    import json as _json

    def dumps(o, **k):
        return JsonDoc(json_normalise(I, o), k)

    def loads(s, **k):
        if isinstance(s, JsonDoc):
            return json_copy(s.value)
        if isinstance(s, str):
            try:
                return _json.loads(s)
            except ValueError as e:
                raise Raised(e)
        raise Untranslatable("json.loads of non-document")
    mods["json"] = ModuleNS("json", {"dumps": Builtin("dumps", dumps), "loads": Builtin("loads", loads)})

    # packaging.version
    try:
        from packaging.version import Version as _Version

        def parse(s):
            try:
                return _Version(s)
            except Exception as e:
                raise Raised(e)
        mods["packaging"] = ModuleNS("packaging", {})
        mods["packaging.version"] = ModuleNS("packaging.version", {"Version": _Version, "parse": Builtin("parse", parse)})
        mods["packaging"].d["version"] = mods["packaging.version"]
    except ImportError:  # pragma: no cover
        pass

    mods["math"] = ModuleNS("math", {"pi": math.pi, "inf": math.inf, "nan": math.nan})
    return mods


class _BuiltinMethod:
    """A Python-implemented method stored in a RepoClass namespace."""

    def __init__(self, name, f):
        self.name = name
        self.f = f


class JsonDoc:
    """The text produced by json.dumps, kept as the (normalised) JSON value it denotes.
    Assumed stub: json.loads(json.dumps(x)) == J(x) where J maps tuples to lists and is the identity on
    None/bool/int/float/str/list/dict-with-str-keys (floats round-trip through repr)."""

    def __init__(self, value, opts):
        self.value = value
        self.opts = opts


def json_normalise(I, o):
    if o is None or isinstance(o, (bool, int, float, str, Sym)):
        return o
    if isinstance(o, NpScalar):
        if o.dtype.kind == "f" and o.dtype == _np.float64:
            return o.v  # np.float64 is a float subclass
        raise Raised(TypeError(f"Object of type {o.dtype} is not JSON serializable"))
    if isinstance(o, (list, tuple)):
        return [json_normalise(I, x) for x in o]
    if isinstance(o, dict):
        out = {}
        for k, v in o.items():
            if not isinstance(k, (str, int, float, bool)) and k is not None:
                raise Raised(TypeError("keys must be str, int, float, bool or None"))
            out[k if isinstance(k, str) else str(k)] = json_normalise(I, v)
        return out
    raise Raised(TypeError(f"Object of type {I.type_name(o)} is not JSON serializable"))


def json_copy(v):
    if isinstance(v, list):
        return [json_copy(x) for x in v]
    if isinstance(v, dict):
        return {k: json_copy(x) for k, x in v.items()}
    return v


# ----------------------------------------------------------------------------------------------

def make_builtins(I):
    from .interp import (Builtin, RepoClass, RepoFunction, BoundMethod, PropertyObj, ClassMethodObj,
                         StaticMethodObj, SuperProxy, NpTypeMarker, ModuleNS, SingleDispatch)
    B = {}

    def b(name):
        def reg(f):
            B[name] = Builtin(name, f)
            return f
        return reg

    for exc in ("Exception", "BaseException", "ValueError", "TypeError", "KeyError", "IndexError", "RuntimeError",
                "NotImplementedError", "AttributeError", "ImportError", "ZeroDivisionError", "OverflowError",
                "AssertionError", "StopIteration", "NameError", "FutureWarning", "DeprecationWarning",
                "UserWarning", "RuntimeWarning", "Warning", "ArithmeticError", "LookupError", "OSError",
                "FloatingPointError", "ModuleNotFoundError", "FileNotFoundError"):
        B[exc] = getattr(__import__("builtins"), exc)
    B["NotImplemented"] = NotImplemented
    B["Ellipsis"] = Ellipsis
    B["None"] = None
    B["True"] = True
    B["False"] = False
    B["object"] = object
    for t in (int, float, bool, str, list, tuple, dict, set, frozenset, slice, type, complex, bytes):
        B[t.__name__] = t
    B["range"] = range

    @b("len")
    def _len(x):
        if isinstance(x, (list, tuple, str, dict, set, frozenset, range)):
            return len(x)
        if isinstance(x, (Arr, TArr)):
            if x.ndim == 0:
                raise Raised(TypeError("len() of unsized object"))
            return x.shape[0]
        if isinstance(x, (SymRange, SymList)):
            return x.n
        if isinstance(x, (GenList, SymGen)):
            raise Raised(TypeError("object of type 'generator' has no len()"))
        if isinstance(x, Obj):
            f, _ = obj_cls(x).lookup("__len__")
            if f is not None:
                return I.call(BoundMethod(f, x), [], {})
        if hasattr(x, "py_len"):
            return x.py_len()
        raise Raised(TypeError(f"object of type '{I.type_name(x)}' has no len()"))

    @b("isinstance")
    def _isinstance(v, t):
        return I.isinstance(v, t)

    @b("issubclass")
    def _issubclass(c, t):
        if isinstance(t, tuple):
            return any(_issubclass(c, x) for x in t)
        if isinstance(c, RepoClass):
            return t in c.mro
        if isinstance(c, type) and isinstance(t, type):
            return issubclass(c, t)
        return False

    @b("hasattr")
    def _hasattr(o, name):
        return I.hasattr(o, name)

    @b("getattr")
    def _getattr(o, name, *default):
        if default:
            try:
                return I.getattr(o, name)
            except Raised as r:
                if isinstance(r.exc, AttributeError):
                    return default[0]
                raise
        return I.getattr(o, name)

    @b("setattr")
    def _setattr(o, name, v):
        I.setattr(o, name, v)

    @b("callable")
    def _callable(o):
        if isinstance(o, (Builtin, RepoFunction, RepoClass, BoundMethod, SingleDispatch, type)):
            return True
        if isinstance(o, Obj):
            return obj_cls(o).lookup("__call__")[0] is not None
        return False

    @b("id")
    def _id(o):
        return id(o)

    @b("print")
    def _print(*a, **k):
        I.draw_log.append(("print", a, k))
        return None

    @b("repr")
    def _repr(o):
        return I.py_repr(o)

    @b("abs")
    def _abs(x):
        if isinstance(x, (Arr, TArr)):
            return I.np.d["abs"](x)
        return absval(x)

    @b("round")
    def _round(x, nd=None):
        x0 = raw(x)
        if isinstance(x0, Sym):
            raise Untranslatable("round() of a symbolic value")
        return round(x0, nd) if nd is not None else round(x0)

    def _minmax(name, lt):
        def f(*args, **k):
            if "key" in k:
                raise Untranslatable(f"{name}(key=...)")
            if len(args) == 1 and isinstance(args[0], (SymRange, SymList, SymGen)):
                # min / max over a sequence of symbolic length (documented behaviour, assumed): ValueError when it is empty,
                # otherwise a value m of the sequence (witness position j) that bounds every element
                src = args[0]
                n = term_of(raw(src.n), "int")
                if not I.ctx.branch(n >= 1):
                    if "default" in k:
                        return k["default"]
                    raise Raised(ValueError(f"{name}() arg is an empty sequence"))
                i = z3.Int(I.ctx.fresh_name("mm_i"))
                j = z3.Int(I.ctx.fresh_name("mm_j"))
                e_i, e_j = raw(src.elem(i)), raw(src.elem(j))
                if not (isinstance(e_i, (Sym, int)) and kind_of(e_i) == "int"):
                    raise Untranslatable(f"{name}() over a symbolic-length sequence of non-integers")
                m = z3.Int(I.ctx.fresh_name(name))
                ti, tj = term_of(e_i, "int"), term_of(e_j, "int")
                I.ctx.assume(z3.And(j >= 0, j < n, tj == m), f"{name}(): the result is an element")
                I.ctx.assume(z3.ForAll([i], z3.Implies(z3.And(i >= 0, i < n), ti >= m if lt else ti <= m)), f"{name}(): the result bounds every element")
                I.stub_log.add(f"builtins.{name}[symbolic length]")
                return mk(m, "int")
            if len(args) == 1:
                items = list(I.iterate(args[0]))
            else:
                items = list(args)
            if not items:
                if "default" in k:
                    return k["default"]
                raise Raised(ValueError(f"{name}() arg is an empty sequence"))
            r = items[0]
            for x in items[1:]:
                c = compare("<", x, r) if lt else compare(">", x, r)
                if isinstance(c, NpScalar):
                    c = c.v
                if isinstance(c, bool):
                    r = x if c else r
                else:
                    r = ite(c, x, r)
            return r
        return f
    B["min"] = Builtin("min", _minmax("min", True))
    B["max"] = Builtin("max", _minmax("max", False))

    @b("sum")
    def _sum(it, start=0):
        acc = start
        for x in I.iterate(it):
            if isinstance(x, bool):
                x = int(x)
            acc = I.binop("+", acc, x)
        return acc

    @b("any")
    def _any(it):
        acc = False
        for x in I.iterate(it):
            if isinstance(x, (Sym,)) and x.kind == "bool":
                acc = x if acc is False else logic_or(acc, x)
            elif I.truth(x):
                return True
        return acc

    @b("all")
    def _all(it):
        acc = True
        for x in I.iterate(it):
            if isinstance(x, (Sym,)) and x.kind == "bool":
                acc = x if acc is True else logic_and(acc, x)
            elif not I.truth(x):
                return False
        return acc

    @b("enumerate")
    def _enumerate(it, start=0):
        if isinstance(it, TArr):
            from .interp import SymEnum
            return SymEnum(it, start)
        return [(i + start, x) for i, x in enumerate(I.iterate(it))]

    @b("zip")
    def _zip(*its, **k):
        return list(zip(*[I.iterate(x) for x in its]))

    @b("map")
    def _map(f, *its):
        return [I.call(f, list(xs), {}) for xs in zip(*[I.iterate(x) for x in its])]

    @b("filter")
    def _filter(f, it):
        return [x for x in I.iterate(it) if I.truth(I.call(f, [x], {}) if f is not None else x)]

    @b("sorted")
    def _sorted(it, key=None, reverse=False):
        items = list(I.iterate(it))
        ks = [I.call(key, [x], {}) for x in items] if key else items
        if any(isinstance(raw(x), Sym) for x in ks):
            raise Untranslatable("sorted() of symbolic values")
        order = sorted(range(len(items)), key=lambda i: raw(ks[i]), reverse=reverse)
        return [items[i] for i in order]

    @b("reversed")
    def _reversed(it):
        return list(reversed(I.iterate(it)))

    @b("iter")
    def _iter(it):
        return GenList(list(I.iterate(it)))

    @b("next")
    def _next(g, *default):
        if isinstance(g, GenList):
            if g.consumed or not g.items:
                if default:
                    return default[0]
                raise Raised(StopIteration())
            return g.items.pop(0)
        raise Untranslatable("next() on non-generator")

    @b("divmod")
    def _divmod(a, b2):
        return (I.binop("//", a, b2), I.binop("%", a, b2))

    @b("property")
    def _property(fget=None, fset=None, *a, **k):
        return PropertyObj(fget, fset)

    @b("classmethod")
    def _classmethod(f):
        return ClassMethodObj(f)

    @b("staticmethod")
    def _staticmethod(f):
        return StaticMethodObj(f)

    @b("super")
    def _super(cls, obj):
        return SuperProxy(cls, obj)

    @b("vars")
    def _vars(o):
        return obj_dict(o)

    @b("format")
    def _format(v, spec=""):
        return format(raw(v), spec)

    @b("hash")
    def _hash(o):
        return hash(I.hashable(o))

    @b("open")
    def _open(*a, **k):
        raise Untranslatable("file I/O")

    return B


def conv_int(I, x=0, base=None):
    x0 = raw(x)
    if isinstance(x0, Sym):
        if x0.kind == "float":
            if x0.nan is not None:
                if I.ctx.branch(x0.nan):
                    raise Raised(ValueError("cannot convert float NaN to integer"))
            return mk(simp(trunc_term(x0.t)), "int")
        return mk(term_of(x0, "int"), "int")
    if isinstance(x0, (Arr,)):
        if x0.size == 1:
            return conv_int(I, x0.elems()[0])
        raise Raised(TypeError("only length-1 arrays can be converted to Python scalars"))
    try:
        return int(x0) if base is None else int(x0, base)
    except (ValueError, TypeError, OverflowError) as e:
        raise Raised(e)


def conv_float(I, x=0.0):
    x0 = raw(x)
    if isinstance(x0, Sym):
        return mk(term_of(x0, "float"), "float", False, x0.nan)
    if isinstance(x0, Arr):
        if x0.size == 1:
            return conv_float(I, x0.elems()[0])
        raise Raised(TypeError("only length-1 arrays can be converted to Python scalars"))
    try:
        return float(x0)
    except (ValueError, TypeError) as e:
        raise Raised(e)


def type_of(I, v):
    from .interp import RepoClass, NpTypeMarker
    if isinstance(v, Obj):
        return obj_cls(v)
    if isinstance(v, Sym):
        if v.np:
            return {"int": _np.int64, "float": _np.float64, "bool": _np.bool_}[v.kind]
        return {"int": int, "float": float, "bool": bool}[v.kind]
    if isinstance(v, NpScalar):
        return v.dtype.type
    if isinstance(v, (Arr, TArr)):
        return I.np.d["ndarray"]
    if isinstance(v, RepoClass):
        return type
    if isinstance(v, GenList):
        return TypingDummy("generator")
    if hasattr(v, "lib") and hasattr(v, "py_getattr"):
        from .libstubs import StubType, Series
        return StubType(v.lib, "Series" if isinstance(v, Series) else "DataFrame")
    return type(v)


def call_foreign(I, f, args, kwargs):
    from .interp import NpTypeMarker
    if f is int:
        return conv_int(I, *args, **kwargs)
    if f is float:
        return conv_float(I, *args)
    if f is bool:
        return I.truth(args[0]) if args else False
    if f is str:
        return I.py_str(args[0]) if args else ""
    if f is list:
        return list(I.iterate(args[0])) if args else []
    if f is tuple:
        return tuple(I.iterate(args[0])) if args else ()
    if f is set:
        return set(I.hashable(x) for x in I.iterate(args[0])) if args else set()
    if f is frozenset:
        return frozenset(I.hashable(x) for x in I.iterate(args[0])) if args else frozenset()
    if f is dict:
        d = {}
        if args:
            a = args[0]
            if isinstance(a, dict):
                d.update(a)
            else:
                for k, v in I.iterate(a):
                    d[I.hashable(k)] = v
        d.update(kwargs)
        return d
    if f is slice:
        return slice(*args)
    if f is range:
        if len(args) == 1 and isinstance(raw(concretize(raw(args[0]))), Sym) and getattr(I, "extent_cap", None) is None \
                and raw(args[0]).kind == "int":
            return SymRange(raw(args[0]))
        vals = [I.concrete_int(a, "range() argument") for a in args]
        return range(*vals)
    if f is type:
        if len(args) == 1:
            return type_of(I, args[0])
        raise Untranslatable("3-argument type()")
    if f is object:
        return Obj(_OBJECT_CLS(I))
    if isinstance(f, _BuiltinMethod):
        return f.f(*args, **kwargs)
    if isinstance(f, TypingDummy):
        return TypingDummy(f.name + "()")
    if isinstance(f, NpTypeMarker) or (isinstance(f, type) and issubclass(f, _np.generic)):
        return I.np.call_type(f, args, kwargs)
    if isinstance(f, type) and f.__module__ == "numpy" or f is _np.dtype:
        return I.np.call_type(f, args, kwargs)
    if hasattr(f, "py_call"):
        return f.py_call(*args, **kwargs)
    if isinstance(f, type) and f.__module__.startswith("packaging."):
        try:
            return f(*args, **kwargs)
        except Exception as e:
            raise Raised(e)
    raise Untranslatable(f"call of {f!r}")


_OBJ = {}


def _OBJECT_CLS(I):
    from .interp import RepoClass
    if id(I) not in _OBJ:
        _OBJ[id(I)] = RepoClass(I, "object", "builtins", [], {})
    return _OBJ[id(I)]


def isinstance_foreign(I, v, t):
    import abc as _abc
    if t is NumberMarker:
        return isinstance(v, (int, float, bool, NpScalar)) or isinstance(v, Sym)
    if t is IteratorMarker:
        return isinstance(v, GenList)
    if hasattr(t, "py_isinstance"):
        return t.py_isinstance(v)
    if isinstance(t, TypingDummy):
        raise Untranslatable(f"isinstance against typing construct {t.name}")
    if t is _abc.ABC:
        return isinstance(v, Obj) and _abc.ABC in obj_cls(v).mro
    if isinstance(t, type) and (issubclass(t, _np.generic) or t is _np.dtype):
        from . import npstubs
        return npstubs.isinstance_real_np(I, v, t)
    if isinstance(t, type):
        if isinstance(v, (Obj, Sym, NpScalar, Arr, TArr)):
            return False
        return isinstance(v, t)
    raise Untranslatable(f"isinstance against {t!r}")


def binop_foreign(I, op, a, b):
    if isinstance(a, _np.dtype) or isinstance(b, _np.dtype):
        raise Raised(TypeError("unsupported operand for dtype"))
    ta, tb = I.type_name(a), I.type_name(b)
    raise Raised(TypeError(f"unsupported operand type(s) for {op}: '{ta}' and '{tb}'"))


def compare_foreign(I, op, a, b):
    if type(a).__module__.startswith("packaging.") and type(b).__module__.startswith("packaging."):
        import operator
        return {"<": operator.lt, "<=": operator.le, ">": operator.gt, ">=": operator.ge}[op](a, b)
    raise Raised(TypeError(f"'{op}' not supported between instances of '{I.type_name(a)}' and '{I.type_name(b)}'"))


def getitem_foreign(I, o, idx):
    import re as _re
    if isinstance(o, _re.Match):
        try:
            return o[idx]
        except IndexError as e:
            raise Raised(e)
    if isinstance(o, TypingDummy):
        return TypingDummy(o.name + "[]")
    if hasattr(o, "py_getitem"):
        return o.py_getitem(idx)
    raise Raised(TypeError(f"'{I.type_name(o)}' object is not subscriptable"))


def builtin_setattr(I, o, name, v):
    if hasattr(o, "py_setattr"):
        return o.py_setattr(name, v)
    raise Raised(AttributeError(f"'{I.type_name(o)}' object has no attribute '{name}'"))


def builtin_getattr(I, o, name):
    from .interp import Builtin, BoundMethod, NpTypeMarker
    if isinstance(o, (Arr, TArr)):
        return I.np.array_attr(o, name)
    if isinstance(o, (Sym, NpScalar)):
        return I.np.scalar_attr(o, name)
    if isinstance(o, list):
        return list_method(I, o, name)
    if isinstance(o, dict):
        return dict_method(I, o, name)
    if isinstance(o, str):
        m = getattr(o, name, None)
        if m is None:
            raise Raised(AttributeError(f"'str' object has no attribute '{name}'"))

        def call(*a, **k):
            if name == "join":
                return o.join([x if isinstance(x, str) else _bad_join(x) for x in I.iterate(a[0])])
            if name == "format":
                return o.format(*[I.py_str(x) if isinstance(x, (Sym, NpScalar, Obj, Arr)) else x for x in a],
                                **{kk: I.py_str(x) if isinstance(x, (Sym, NpScalar, Obj, Arr)) else x for kk, x in k.items()})
            return m(*a, **k)
        return Builtin("str." + name, call)
    if isinstance(o, tuple):
        if name == "index":
            def index(x):
                for i, y in enumerate(o):
                    if I.truth(I.equals(y, x)):
                        return i
                raise Raised(ValueError("tuple.index(x): x not in tuple"))
            return Builtin("tuple.index", index)
        if name == "count":
            return Builtin("tuple.count", lambda x: sum(1 for y in o if I.truth(I.equals(y, x))))
    if isinstance(o, (set, frozenset)):
        return set_method(I, o, name)
    if isinstance(o, slice):
        if name in ("start", "stop", "step"):
            return getattr(o, name)
        if name == "indices":
            return Builtin("indices", lambda n: slice(*[None if x is None else I.concrete_int(x) for x in (o.start, o.stop, o.step)]).indices(I.concrete_int(n)))
    if isinstance(o, GenList):
        pass
    if isinstance(o, CtxVar):
        return ctxvar_method(I, o, name)
    if isinstance(o, BaseException):
        if name == "args":
            return o.args
        if name == "__class__":
            return type(o)
    if isinstance(o, type):
        if name == "__name__":
            return o.__name__
        if issubclass(o, _np.generic) or o is _np.dtype:
            return I.np.type_attr(o, name)
        if name == "__new__" and o is object:
            return Builtin("object.__new__", lambda c, *a, **k: Obj(c))
        if name == "__init__":
            return Builtin("object.__init__", lambda *a, **k: None)
        if name == "__mro__":
            return o.__mro__
    if isinstance(o, NpTypeMarker):
        if name == "__name__":
            return o.name
    if isinstance(o, _np.dtype) or isinstance(o, (_np.iinfo, _np.finfo)):
        return I.np.dtype_attr(o, name)
    if isinstance(o, TypingDummy):
        if name == "__name__":
            return o.name
        return TypingDummy(o.name + "." + name)
    if hasattr(o, "d") and o is getattr(I, "_environ", None) or type(o).__name__ == "Environ":
        if name == "get":
            return Builtin("environ.get", lambda k, default=None: o.d.get(k, default))
    if isinstance(o, JsonDoc):
        raise Untranslatable(f"string method {name} on a JSON document")
    if isinstance(o, Builtin):
        if name == "__name__":
            return o.name
    if hasattr(o, "py_getattr"):
        return o.py_getattr(name)
    if isinstance(o, (int, float, bool)):
        return I.np.scalar_attr(o, name)
    if o is None:
        raise Raised(AttributeError(f"'NoneType' object has no attribute '{name}'"))
    try:
        from packaging.version import Version
        if isinstance(o, Version):
            return getattr(o, name)
    except ImportError:  # pragma: no cover
        pass
    raise Raised(AttributeError(f"'{I.type_name(o)}' object has no attribute '{name}'"))


def _bad_join(x):
    raise Raised(TypeError("sequence item: expected str instance"))


def ctxvar_method(I, var, name):
    from .interp import Builtin
    if name == "get":
        def get(*default):
            if var.value is not _MISSING:
                return var.value
            if default:
                return default[0]
            if var.has_default:
                return var.default
            raise Raised(LookupError(var.name))
        return Builtin("ContextVar.get", get)
    if name == "set":
        def set_(v):
            tok = CtxToken(var, var.value)
            var.value = v
            var.writes += 1
            return tok
        return Builtin("ContextVar.set", set_)
    if name == "reset":
        def reset(tok):
            if not isinstance(tok, CtxToken) or tok.var is not var:
                raise Raised(ValueError("Token was created by a different ContextVar"))
            if tok.used:
                raise Raised(RuntimeError("Token has already been used once"))
            tok.used = True
            var.value = tok.old
            var.writes += 1
        return Builtin("ContextVar.reset", reset)
    if name == "name":
        return var.name
    raise Raised(AttributeError(name))


def list_method(I, o, name):
    from .interp import Builtin
    if name == "append":
        return Builtin("append", lambda x: o.append(x))
    if name == "extend":
        return Builtin("extend", lambda it: o.extend(I.iterate(it)))
    if name == "copy":
        return Builtin("copy", lambda: list(o))
    if name == "insert":
        return Builtin("insert", lambda i, x: o.insert(I.concrete_int(i), x))
    if name == "reverse":
        return Builtin("reverse", lambda: o.reverse())
    if name == "clear":
        return Builtin("clear", lambda: o.clear())
    if name == "pop":
        def pop(i=-1):
            try:
                return o.pop(I.concrete_int(i))
            except IndexError as e:
                raise Raised(e)
        return Builtin("pop", pop)
    if name == "index":
        def index(x):
            for i, y in enumerate(o):
                if I.truth(I.equals(y, x)):
                    return i
            raise Raised(ValueError("list.index(x): x not in list"))
        return Builtin("index", index)
    if name == "count":
        return Builtin("count", lambda x: sum(1 for y in o if I.truth(I.equals(y, x))))
    if name == "remove":
        def remove(x):
            for i, y in enumerate(o):
                if I.truth(I.equals(y, x)):
                    del o[i]
                    return
            raise Raised(ValueError("list.remove(x): x not in list"))
        return Builtin("remove", remove)
    if name == "sort":
        def sort(key=None, reverse=False):
            ks = [I.call(key, [x], {}) for x in o] if key else list(o)
            if any(isinstance(raw(x), Sym) for x in ks):
                raise Untranslatable("list.sort() of symbolic values")
            order = sorted(range(len(o)), key=lambda i: raw(ks[i]), reverse=reverse)
            o[:] = [o[i] for i in order]
        return Builtin("sort", sort)
    raise Raised(AttributeError(f"'list' object has no attribute '{name}'"))


def dict_method(I, o, name):
    from .interp import Builtin
    h = I.hashable
    if name == "get":
        return Builtin("get", lambda k, default=None: o.get(h(k), default))
    if name == "pop":
        def pop(k, *default):
            k = h(k)
            if k in o:
                return o.pop(k)
            if default:
                return default[0]
            raise Raised(KeyError(k))
        return Builtin("pop", pop)
    if name == "update":
        def update(*a, **k):
            for x in a:
                if isinstance(x, dict):
                    o.update(x)
                else:
                    for kk, vv in I.iterate(x):
                        o[h(kk)] = vv
            o.update(k)
        return Builtin("update", update)
    if name == "keys":
        return Builtin("keys", lambda: list(o.keys()))
    if name == "values":
        return Builtin("values", lambda: list(o.values()))
    if name == "items":
        return Builtin("items", lambda: list(o.items()))
    if name == "copy":
        return Builtin("copy", lambda: dict(o))
    if name == "setdefault":
        return Builtin("setdefault", lambda k, d=None: o.setdefault(h(k), d))
    if name == "clear":
        return Builtin("clear", lambda: o.clear())
    raise Raised(AttributeError(f"'dict' object has no attribute '{name}'"))


def set_method(I, o, name):
    from .interp import Builtin
    h = I.hashable
    if name == "add":
        return Builtin("add", lambda x: o.add(h(x)))
    if name == "union":
        return Builtin("union", lambda *its: o.union(*[set(h(x) for x in I.iterate(it)) for it in its]))
    if name == "intersection":
        return Builtin("intersection", lambda *its: o.intersection(*[set(h(x) for x in I.iterate(it)) for it in its]))
    if name == "difference":
        return Builtin("difference", lambda *its: o.difference(*[set(h(x) for x in I.iterate(it)) for it in its]))
    if name == "update":
        return Builtin("update", lambda *its: o.update(*[set(h(x) for x in I.iterate(it)) for it in its]))
    if name == "discard":
        return Builtin("discard", lambda x: o.discard(h(x)))
    if name == "copy":
        return Builtin("copy", lambda: set(o))
    if name == "issubset":
        return Builtin("issubset", lambda it: o.issubset(set(I.iterate(it))))
    raise Raised(AttributeError(f"'set' object has no attribute '{name}'"))
