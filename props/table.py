"""Per-property claims (source of MANIFEST.json, regenerate with bin/mkmanifest.py)."""
SOURCE_COMMITS = ["7e146d4", "9424340", "a1f5d2c"]   # fix: commits in /repo (no hook commits are needed)

_NOTE = ("Trusted: PyVC (interpreter, VC generation), z3, the numpy/builtins stubs (assumed contracts of dependencies, listed in the "
         "evidence), floats treated as reals except in comparisons, unbounded ints, partial correctness. ")

CHECKS = {
 "C14": {"category": "proof", "technique": "contract-based deductive verification: VCs generated from the real AST, discharged by z3 (nonlinear real arithmetic)",
         "text": "Every method of the Statistics dataclass (mean, variance, std, +, *) carries ensures clauses taken from the property statement; "
                 "all paths of the real source are executed symbolically over unconstrained real-valued fields (python and numpy float kinds) and "
                 "every clause is discharged by z3 for all inputs; counterexamples are replayed on the real code.",
         "note": _NOTE + "The statistics clauses of fill/fill_n/construction are bounded (array extents fixed) and reported separately."},
}
CHECKS["C01"] = {"category": "other", "technique": "contract-based VC generation from the real AST, z3; bounded array extents (labelled bounded, not proved)",
   "text": "The ensures clauses of h1 are taken from the property statement (per-bin weight sums, squared errors, under/overflow accounting, NaN "
           "markers for gapped bins). The real source of h1 and everything it calls is executed symbolically for every path with symbolic values, weights "
           "and edges; array extents are fixed per configuration (data length <= 3, bins <= 3), so these obligations are a bounded stand-in, never counted as proved.",
   "note": _NOTE + "Bounded: extents fixed (n<=3 values, m<=3 bins). argsort/searchsorted are assumed contracts (permutation + sortedness; counting)."}
NOT_APPLICABLE = {}
