"""Per-property claims (source of MANIFEST.json, regenerate with bin/mkmanifest.py)."""
SOURCE_COMMITS = ["7e146d4", "9424340", "a1f5d2c", "8e587e5", "5690cd1", "d545c2f", "62723dc", "8131b7f", "100c501", "28b899b", "5d5fcc0", "dc78639", "f3454e3", "e1a045f", "3bd7141", "68fba81", "1f4c606", "2772037", "fd3af25", "c78d510", "fee30d6", "82e3cd8", "4fbdbe2", "d4c0819", "1d2c566", "ec41efd", "43144da"]   # fix: commits in /repo (no hook commits are needed)

_NOTE = ("Trusted: PyVC (interpreter, VC generation), z3, the numpy/builtins stubs (assumed contracts of dependencies, listed in the "
         "evidence), floats treated as reals except in comparisons, unbounded ints, partial correctness. ")

CHECKS = {
 "C14": {"category": "proof", "technique": "contract-based deductive verification: VCs generated from the real AST, discharged by z3 (nonlinear real arithmetic)",
         "text": "Every method of the Statistics dataclass (mean, variance, std, +, *) carries ensures clauses taken from the property statement; "
                 "all paths of the real source are executed symbolically over unconstrained real-valued fields (python and numpy float kinds) and "
                 "every clause is discharged by z3 for all inputs; counterexamples are replayed on the real code.",
         "note": _NOTE + "The statistics clauses of fill/fill_n/construction are bounded (array extents fixed) and reported separately."},
}
CHECKS["C01"] = {"category": "proof", "technique": "contract-based deductive verification: VCs from the real AST, loop cut at a sidecar invariant, inductive lemmas proved per run, z3 (+ Lean for one lemma)",
   "text": "Unbounded (data length and bin count are symbolic integers, arrays are z3 array terms): the facade h1 end to end -- extract_1d_array, extract_weights, calculate_1d_bins, "
           "calculate_1d_frequencies, Histogram1D.__init__ interpreted in place -- for a 1-D array of finite floats of ANY length, a binning object with ANY number of rising bins "
           "(gaps allowed), weights absent / int / float (>= 0), dropna on/off, keep_missed on/off; and calculate_1d_frequencies itself for weights of any sign, sorted or unsorted data. "
           "Clauses taken from the property statement: every bin holds exactly the weight of the entries inside it (last bin closed), squared errors likewise, underflow/overflow are the "
           "weight below/above for consecutive bins and NaN otherwise, contents + underflow + overflow = total input weight, inputs untouched. The per-bin loop is cut at an invariant "
           "(inv-entry / inv-step obligations); the facts about sums over sorted slices, adjacent intervals, partitions and sums over bins are lemmas proved by an explicit induction scheme on "
           "every run (lemma-base / lemma-step obligations, plus deliberately wrong lemmas that must be rejected). Bounded (extents <= 3, contents symbolic; reported under coverage.bounded): "
           "NaN dropping with weights, multi-dimensional / transposed inputs, bins given as edges or method names, dtype requests, the helper predicates.",
   "note": _NOTE + "ASSUMED: np.argsort returns a sorting permutation; np.searchsorted returns the insertion point of a SORTED array (sortedness is an obligation at every call); "
           "the permutation lemma (a weighted count is invariant under re-indexing by a permutation) is assumed by z3 and proved in /verif/lean/PermSum.lean, checked by Lean in the "
           "thorough tier -- the transcription between the two statements is trusted; the induction principle over the naturals is trusted; floats are reals. Bounded: see text."}
_B = "contract-based VC generation from the real AST, z3; array extents bounded (labelled bounded, never counted as proved)"
_BT = ("Ensures/raises clauses taken from the property statement are attached to the real functions; the real source (and everything it calls, "
       "interpreted in place) is executed symbolically on every path with symbolic contents, edges, weights and scalars; every clause is discharged by z3 "
       "and counterexamples are replayed on the real code. Array extents / bin counts are fixed small numbers per configuration, so these obligations are a "
       "bounded stand-in and are reported under coverage.bounded, never as proved. ")
for _p, _extra in {
    "C02": "h facade over 2-3 axes, <=2 rows (also right-open axes with warm edge caches; rows with infinite coordinates by a stand-in decided on the real code). Additionally unbounded "
           "(counted under obligations/discharged): the constructor every ND construction ends in, Histogram2D.__init__, for cell arrays of ANY shape (stores exactly the given contents, "
           "errors default to the contents, missed weight kept, wrong shapes / negative values refused).", "C03": "find_bin/fill/fill_n of Histogram1D and HistogramND.",
    "C05": "__iadd__/__add__ same-bins and refusal arms; Statistics.__add__ is proved unbounded.",
    "C06": "scaling/division arms and refusals; Statistics.__mul__ is proved unbounded.",
    "C09": "projection over every enumerated axis tuple of 2D-4D shapes, T, accumulate. Additionally unbounded (counted under obligations/discharged): the projection of a 2-D "
           "histogram of ANY shape onto one axis (by index or name) -- marginal contents and errors as recursive row / column sums, bins and name of the kept axis, parent untouched; Histogram2D.T for any shape (bins, names, contents swapped, T.T is the original).", "C10": "merge_bins(amount) 1D/2D.",
    "C11": "1D int/slice/mask/index-array and ND tuple indexing.", "C12": "independence (no shared writable storage) of copy, +, *, /, merge, slices, projections, T.",
    "C13": "dtype consistency/promotion clauses of fill, fill_n, +, *, /.", "C18": "state-unchanged clauses on every refusing path of the mutators. Additionally unbounded (counted under obligations/discharged, any bin count / shape): "
           "a negative factor in *=, a merge across a gap (merge_bins), wrong shapes / negative values in the 1-D and 2-D constructors -- refused with every content unchanged.",
}.items():
    CHECKS[_p] = {"category": "other", "technique": _B, "text": _BT + _extra, "note": _NOTE + "Bounded extents (see evidence coverage.bounded.bounds)."}
for _p, _extra in {
    "C08": "parse_json(to_json(h)) field by field for every class x binning type, re-serialisation, version gate (require_compatible_version is unbounded).",
    "C17": "h1 / h over lists, tuples, iterators, 2-D arrays, pandas and polars Series / DataFrames (values with NaN flags, weights as arrays or Series) against the "
           "histogram of the equivalent array; refusals of non-numeric, null-containing, wrongly shaped inputs; axis names from Series / column names.",
    "C20": "get_data / get_err_data / check_ndim / get_value_format / pop_kwargs_with_prefix / TimeTickHandler (get_time_ticks, split_hms, parse_level), plot() refusals; "
           "DRAW-LOG postconditions of matplotlib bar / scatter / line / fill / step / map and of plotly bar / line / scatter / map (arguments handed to the primitives), labels, error "
           "bars, values, ticks, histogram untouched; ascii hbar is decided by the cross-check on the real code only.",
    "C15": "transform wiring of all seven classes (uninterpreted hypot/arctan2, 2*pi folding), mixin find_bin/fill/fill_n, projection class map. The transform of a single point "
           "(all inputs of that call shape, nothing bounded) and the fill of one Cartesian point into a radial / azimuthal histogram with ANY number of bins are counted under obligations/discharged.",
    "C16": "densities/bin_sizes/edges/centres/widths/cumulative of 1D and ND histograms, true bin measures and additivity for the seven special classes (cos uninterpreted).",
}.items():
    CHECKS[_p] = {"category": "other", "technique": _B, "text": _BT + _extra, "note": _NOTE + "Bounded extents (see evidence coverage.bounded.bounds)."}
CHECKS["C19"] = {"category": "proof", "technique": "contract-based deductive verification: VCs from the real AST (generator-based context manager interpreted), z3",
   "text": "enable_free_arithmetics/_change_value, the getter/setter and the environment default are verified for a symbolic switch value: inside the block the requested value is "
           "seen; every exit -- normal or exceptional, at every nesting depth up to 3 (each depth x failing level is a separate complete path) -- restores the previous value; the switch "
           "lives only in the ContextVar (frame). The guards in __iadd__/frequencies setter are checked (bounded arrays) with the switch symbolic: accepted iff on, otherwise refused with the state unchanged.",
   "note": _NOTE + "contextvars.ContextVar and contextlib.contextmanager are ASSUMED contracts (stubs); isolation between threads/asyncio tasks is reduced to the assumed ContextVar "
           "contract by the frame clause -- the `schedules` quantifier (interleavings) itself is not decided by this technique."}
CHECKS["C07"] = {"category": "proof", "technique": "contract-based deductive verification (VCs from the real AST, z3); array-valued parts bounded",
   "text": "Unbounded (symbolic bin count): FixedWidthBinning.__init__ (every refusal and the stored grid incl. 'first edge == requested min'), first_edge, last_edge, "
           "numpy_bins (forall i: edge i on the grid, a quantified obligation over a z3 array term), bin_count, copy, _force_bin_existence_single. Bounded (<= 3 bins / values, symbolic "
           "edges and data): validation of StaticBinning/NumpyBinning, agreement of bins / numpy_bins / masked edges / bin_count / first / last / is_consecutive / is_regular / copy / == / "
           "slicing / as_static / as_fixed_width for every class, make_bin_array, is_rising, is_consecutive, to_numpy_bins_with_mask, is_bin_subset, as_binning, the factories numpy / "
           "fixed_width / integer / static / exponential / quantile(refusals) / ideal_bin_count and the dispatch of calculate_1d_bins.",
   "note": _NOTE + "Not covered: pretty_binning's width choice (log10/argmin over candidates), quantile edges (np.percentile is an uninterpreted stub), astropy rules, "
           "rounding of floor/ceil on binary64 (finding F6), doane's skewness."}
CHECKS["C17"]["note"] = (_NOTE + "pandas / polars behaviour is an ASSUMED contract (pyvc/libstubs.py, written from the documentation); the cross-check feeds real pandas / polars "
    "objects to the real adapters on sampled inputs and is the conformance run of these stubs. The pandas IntervalIndex round trip (binning_to_index / index_to_binning) is a stand-in contract decided "
    "by that cross-check only; the Geant4 table-to-histogram step (_create_h1) and the dask graph shape (_run_dask) are under contract. NOT covered by this check: dask scheduling, xarray "
    "conversions, to_dataframe / to_series, the .physt accessors and the text parsing of geant4.load_csv -- no contract on them is claimed.")
CHECKS["C20"]["note"] = (_NOTE + "ASSUMED: matplotlib / plotly primitives draw what their arguments say (pyvc/plotstubs.py records the arguments handed to them); "
    "Normalize(clip=True) + colormap is monotone. What the back ends actually render is not verified. Not covered: image, polar_map, bar3d, globe/cylinder/surface maps, pair_bars, "
    "stats box, colorbar, format_time_ticks, folium, vega (disabled at this commit).")
for _p, _t in {
    "C03": "Unbounded (ANY number of bins, z3 array terms + a quantified searchsorted contract): Histogram1D.find_bin and fill -- the reported bin contains the value, exactly that bin is "
           "incremented by w (squared error by w*w), under/overflow/gap bookkeeping, statistics, dtype; Histogram1D.fill_n for a batch of ANY length (every bin gains the weight of exactly "
           "the batch entries inside it -- what folding fill over the batch adds; loop invariant + inductive lemmas of C01); HistogramND.fill of one point into a 2-D histogram of ANY shape "
           "(the reported cell contains the point on both axes, exactly that cell gains the weight, otherwise `missed` does). ",
    "C05": "Unbounded (any number of bins): __iadd__ of histograms over the same bins adds contents and squared errors bin by bin, missed values, statistics, dtype promotion, other operand untouched; __add__ gives the same sum in a new histogram that shares no binning object "
           "with either operand, both operands untouched; __iadd__ with another bin count, an edge differing beyond the tolerance, another dimension or a non-histogram operand is refused and nothing changes. ",
    "C06": "Unbounded (any number of bins): __imul__ / __itruediv__ scale every content by c and every squared error by c*c (a negative factor on a non-empty histogram is refused with the contents untouched); in-place normalize keeps "
           "proportions; *, / and normalize(inplace=False) give the same in a new histogram, the operand untouched. ",
    "C12": "Unbounded: Histogram1D.copy shares nothing writable for any number of bins; slices h[a:b], 2-D projections, T, +, *, / and normalize(inplace=False) are independent of their operands. ",
    "C11": "Unbounded (any number of bins): h[i] (edges and content of that bin) and h[a:b] (the selected bins with contents and errors; what is cut off goes to underflow / overflow so "
           "nothing is lost -- sum-split and sum-shift lemmas proved by induction per run; source untouched). ",
    "C10": "Unbounded (ANY number of bins; the amount is 1, 2, 3 or 5 per configuration): merge_bins(amount) of a 1-D histogram end to end -- copy, the bin map (a Python list of symbolic "
           "length), BinningBase.apply_bin_map, StaticBinning.__init__, _change_binning, _reshape_data, _apply_bin_map interpreted in place; the two loops over the bin map are cut at sidecar "
           "invariants (inv-entry / inv-step obligations). Clauses from the property statement: the new bins are the runs of `amount` adjacent old bins (last run shorter), from the run's first left "
           "edge to its last right edge; every new bin holds the run's summed content and squared error; totals (block-sum lemma proved by induction on every run) and missed counts conserved; the "
           "source is untouched and shares nothing with the result; a gap inside a run is refused (raise condition exact in both directions) with nothing changed. ",
    "C09": "Unbounded (a 2-D histogram of ANY shape, z3 array terms, marginals / running sums as recursive sums of rows and columns): projection onto one axis by index or name; "
           "Histogram2D.T; accumulate along exactly one axis (running sums of that axis only, bins / names / errors of the parent, parent untouched). ",
    "C13": "Unbounded: dtype promotion / consistency clauses of __imul__, __itruediv__, __iadd__, fill for any number of bins. ",
    "C16": "Unbounded (any number of bins): densities * widths == frequencies, widths > 0, centres, bin sizes, left / right edges, min / max edge, total width as the sum of the widths, "
           "total, cumulative frequencies as running sums ending at total and accumulated in numpy's default accumulator type. ",
}.items():
    CHECKS[_p]["category"] = "proof"
    CHECKS[_p]["technique"] = "contract-based deductive verification: VCs from the real AST, z3 (arrays of symbolic extent as z3 array terms, quantified clauses); remaining array code bounded"
    CHECKS[_p]["text"] = _t + CHECKS[_p]["text"]
CHECKS["C04"] = {"category": "proof", "technique": "contract-based deductive verification: VCs from the real AST, z3 (nonlinear mixed int/real arithmetic)",
   "text": "FixedWidthBinning._force_bin_existence_single is verified for an unbounded (symbolic) bin count, width, origin, shift and value: value covered, grid and old "
           "bins kept, minimal growth, returned shift, caches invalidated -- every path, all inputs (reals). Histogram1D.fill on an adaptive histogram with ANY number (>= 1) of bins and ANY "
           "amount of growth is verified end to end (arrays of symbolic extent): same grid, the value lands in the reported bin, every old content and squared error stays on its interval "
           "(moved by the bins added on the left), growth on one side only and no further than the bin of the value, missed values untouched. The empty histogram, fill_n and '+' of adaptive "
           "histograms are checked bounded (initial count <= 2, growth <= 4 bins per call).",
   "note": _NOTE + "Mode R for the proofs. The rounding behaviour of floor/ceil on binary64 (e.g. width 0.1, value 1.7) is covered only by the decimal-literal cross-check on the real code (bounded stand-in, finding F6 fixed), not by proof."}
CHECKS["C14"]["text"] += (" Statistics clauses of Histogram1D.fill / fill_n / + / * / / / copy are attached to those functions (bounded); for ANY number of bins (unbounded) the "
                          "statistics clauses of fill, fill_n (any batch length), +=, + and *= are discharged too.")
NOT_APPLICABLE = {}
