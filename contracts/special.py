"""C15 (transformed histograms bin by true coordinates) and the special bin measures of C16.  Bounded extents.

hypot / arctan2 / cos are uninterpreted function symbols (hypot with the axioms r >= 0, r^2 = a^2 + b^2); what is
verified about the *code* is the wiring: argument order of arctan2, which column goes where, the 2*pi folding,
single (not double) application of the transform, which method super() reaches, class of the projections."""
import itertools
import math
import numpy as np
from pyvc.vc import contract, ensures, raises
from pyvc.spec import *
from .common import *
from .arith import F, E, M, independent
from .nd import nd_index_ok, cell_pred, nd_binnings
from .fill import binof_ok

SP = "physt.special_histograms:"
BOUND = "special histograms: single points and arrays of <=2 points, shapes up to (1,2,2); coordinates, edges, contents symbolic"
PI = math.pi


def expected(cls, p):
    """true coordinates of Cartesian point p in the axis order of class `cls`"""
    if cls == "RadialHistogram":
        r = hypot(p[1], p[0])
        return [hypot(r, p[2])] if len(p) == 3 else [r]
    if cls == "AzimuthalHistogram":
        return [mod_2pi(arctan2(p[1], p[0]))]
    if cls == "PolarHistogram":
        return [hypot(p[1], p[0]), mod_2pi(arctan2(p[1], p[0]))]
    x, y, z = p
    xy = hypot(x, y)
    if cls == "SphericalSurfaceHistogram":
        return [mod_2pi(arctan2(xy, z)), mod_2pi(arctan2(y, x))]
    if cls == "SphericalHistogram":
        return [hypot(xy, z), mod_2pi(arctan2(xy, z)), mod_2pi(arctan2(y, x))]
    if cls == "CylindricalSurfaceHistogram":
        return [mod_2pi(arctan2(y, x)), z]
    if cls == "CylindricalHistogram":
        return [xy, mod_2pi(arctan2(y, x)), z]
    raise ValueError(cls)


SRC_DIM = {"RadialHistogram": (2, 3), "AzimuthalHistogram": (2,), "PolarHistogram": (2,), "SphericalSurfaceHistogram": (3,),
           "SphericalHistogram": (3,), "CylindricalSurfaceHistogram": (3,), "CylindricalHistogram": (3,)}
OUT_DIM = {"RadialHistogram": 1, "AzimuthalHistogram": 1, "PolarHistogram": 2, "SphericalSurfaceHistogram": 2, "SphericalHistogram": 3,
           "CylindricalSurfaceHistogram": 2, "CylindricalHistogram": 3}


def _tr_cfgs():
    out = []
    for cls, dims in SRC_DIM.items():
        for d in dims:
            out.append({"cls": cls, "d": d, "n": 2})
    return out


@contract(SP + "TransformedHistogramMixin.transform", props=["C15"], name=SP + "TransformedHistogramMixin.transform[single point]")
class _transform_point:
    """one point of the class's source dimension: ALL inputs of this call shape (nothing is bounded: the dimension is part of the
    class); hypot / arctan2 / arccos are uninterpreted symbols with their defining axioms (DESIGN 2.5)"""

    def configs():
        return [{"cls": cls, "d": d, "n": None} for cls, dims in SRC_DIM.items() for d in dims] + \
               [{"cls": cls, "d": SRC_DIM[cls][0], "n": None, "in_dtype": "float32"} for cls in ("PolarHistogram", "SphericalHistogram", "RadialHistogram")]

    def inputs(b):
        return dict(cls=b.module_attr("physt.special_histograms", b.cfg.cls), value=b.array("p", (b.cfg.d,), getattr(b.cfg, "in_dtype", "float64")))

    def invoke(I, fn, a, cfg):
        if I is not None:
            return I.call(I.getattr(a.cls, "transform"), [a.value], {})
        return a.cls.transform(a.value)

    @ensures("true_coordinates_in_the_class_axis_order")
    def _(a, old, result):
        return _tr_clause(a, old, result)

    @ensures("coordinates_are_computed_in_double_precision_whatever_the_input_type")
    def _(a, old, result):
        # a narrow input type must not narrow the arithmetic: pi and 2*pi are not representable in float32, so an angle on the
        # closed upper edge would fall outside the last bin
        return dtype_of(result) == np.dtype("float64") if isarray(result) else typename(result) in ("float", "float64")


@contract(SP + "TransformedHistogramMixin.transform", props=["C15"])
class _transform:
    bounded = True
    bound_note = BOUND
    configs = staticmethod(_tr_cfgs)

    def inputs(b):
        c = b.cfg
        shape = (c.d,) if c.n is None else (c.n, c.d)
        return dict(cls=b.module_attr("physt.special_histograms", c.cls), value=b.array("p", shape))

    def invoke(I, fn, a, cfg):
        if I is not None:
            return I.call(I.getattr(a.cls, "transform"), [a.value], {})
        return a.cls.transform(a.value)

    @ensures("true_coordinates_in_the_class_axis_order")
    def _(a, old, result):
        return _tr_clause(a, old, result)


def _tr_clause(a, old, result):
    if True:
        cls = a._cfg_cls
        pts = [elems(old.value)] if a._cfg_n is None else aslist(old.value)
        k = OUT_DIM[cls]
        want = []
        for p in pts:
            want += expected(cls, p)
        got = elems(result)
        shape = shape_of(result) if isarray(result) else ()
        ok_shape = shape in (((), (1,)) if (a._cfg_n is None and k == 1) else (((k,),) if a._cfg_n is None else ((a._cfg_n,), (a._cfg_n, k))[k > 1:][:1] if False else (((a._cfg_n,),) if k == 1 else ((a._cfg_n, k),))))
        # the coordinates are compared as real numbers (exact symbolically, up to rounding concretely): an algebraically equal
        # way of computing a radius that differs in the last bit is not a different coordinate
        return And(ok_shape, len(got) == len(want), *[close(g, w) for g, w in zip(got, want)], same(elems(a.value), elems(old.value)))



@contract(SP + "TransformedHistogramMixin.transform", props=["C15"], name=SP + "TransformedHistogramMixin.transform[wrong dimension]")
class _transform_refuse:
    bounded = True
    bound_note = BOUND

    def configs():
        out = []
        for cls, dims in SRC_DIM.items():
            for d in (1, 2, 3, 4):
                if d not in dims:
                    out.append({"cls": cls, "d": d})
            # a stacked block (M, N, k) of points of the right last dimension is not a batch of points either
            out.append({"cls": cls, "d": dims[0] if isinstance(dims, (tuple, list)) else dims, "block": True})
        return out

    def inputs(b):
        shape = (1, 2, b.cfg.d) if getattr(b.cfg, "block", False) else (b.cfg.d,)
        return dict(cls=b.module_attr("physt.special_histograms", b.cfg.cls), value=b.array("p", shape))

    def invoke(I, fn, a, cfg):
        if I is not None:
            return I.call(I.getattr(a.cls, "transform"), [a.value], {})
        return a.cls.transform(a.value)

    @raises(ValueError, "wrong_dimensionality_refused", state=None)
    def _(o):
        return True


def special_hist(b, cls, shape, kinds=None, dtype="int64"):
    d = len(shape)
    kinds = kinds or ["static"] * d
    bins = nd_binnings(b, shape, kinds)
    if d == 1:
        h = hist1d(b, "h", bins[0], shape[0], dtype=dtype)
        from pyvc.values import Obj
        o = b.obj(SP + cls, **{k: attr(h, k) for k in ("_binnings", "_frequencies", "_errors2", "_missed", "_dtype", "_meta_data", "keep_missed", "_stats")})
        return o
    h = histnd(b, "h", bins, shape, dtype=dtype, cls=SP + cls)
    if getattr(b.cfg, "radius", False):      # a cylinder surface of a radius other than the default 1 (stored in the meta data)
        R = b.real("R")
        b.assume(R > 0)
        attr(h, "_meta_data")["radius"] = R
    return h


def _fb_cfgs():
    return [{"cls": "PolarHistogram", "shape": (1, 2), "d": 2, "transformed": t} for t in (False, True)] + \
           [{"cls": "RadialHistogram", "shape": (2,), "d": 2, "transformed": False}, {"cls": "RadialHistogram", "shape": (2,), "d": 3, "transformed": False},
            {"cls": "AzimuthalHistogram", "shape": (2,), "d": 2, "transformed": False},
            {"cls": "CylindricalHistogram", "shape": (1, 2, 1), "d": 3, "transformed": False},
            {"cls": "SphericalHistogram", "shape": (1, 1, 2), "d": 3, "transformed": False},
            {"cls": "SphericalSurfaceHistogram", "shape": (2, 1), "d": 3, "transformed": False}]


def coords(o):
    cls = o._cfg_cls
    if o._cfg_transformed:
        return elems(o.value)
    return expected(cls, elems(o.value))


def index_ok(o, result):
    binnings = attr(o.self, "_binnings")
    q = coords(o)
    if len(binnings) == 1:
        return binof_ok(bins_of(binnings[0]), q[0], result)
    return nd_index_ok(binnings, q, result)


@contract(SP + "TransformedHistogramMixin.find_bin", props=["C15"])
class _sp_find_bin:
    bounded = True
    bound_note = BOUND
    configs = staticmethod(_fb_cfgs)

    def inputs(b):
        c = b.cfg
        h = special_hist(b, c.cls, c.shape)
        n_in = OUT_DIM[c.cls] if c.transformed else c.d
        v = b.array("p", (n_in,))
        if c.transformed and OUT_DIM[c.cls] == 1:
            v = b.real("q")
        return dict(self=h, value=v, transformed=c.transformed)

    @ensures("bin_of_the_true_coordinates")
    def _(a, old, result):
        return index_ok(old, result)

    @ensures("nothing_changes")
    def _(a, old, result):
        return same_hist(old.self, a.self)

    known = {"bin_of_the_true_coordinates": [("F5", lambda o: len(attr(o.self, "_binnings")) > 1 and on_open_edge(o))]}


def on_open_edge(o):
    from .nd import on_open_last_edge
    return on_open_last_edge(attr(o.self, "_binnings"), coords(o))


@contract(SP + "TransformedHistogramMixin.fill", props=["C15"])
class _sp_fill:
    bounded = True
    bound_note = BOUND
    configs = staticmethod(_fb_cfgs)

    def inputs(b):
        c = b.cfg
        h = special_hist(b, c.cls, c.shape)
        n_in = OUT_DIM[c.cls] if c.transformed else c.d
        v = b.array("p", (n_in,))
        if c.transformed and OUT_DIM[c.cls] == 1:
            v = b.real("q")
        return dict(self=h, value=v, transformed=c.transformed)

    @ensures("increments_exactly_the_bin_of_the_true_coordinates")
    def _(a, old, result):
        binnings = attr(old.self, "_binnings")
        q = coords(old)
        shape = tuple(len(bins_of(x)) for x in binnings)
        f0, f1 = F(old.self), F(a.self)
        cs = [index_ok(old, result)]
        for pos, cell in enumerate(itertools.product(*[range(s) for s in shape])):
            if len(binnings) == 1:
                ok = inbin(bins_of(binnings[0]), cell[0], q[0])
            else:
                ok = cell_pred(binnings, cell, q)
            cs.append(f1[pos] == f0[pos] + If(ok, 1, 0))
        return And(*cs)

    known = {"increments_exactly_the_bin_of_the_true_coordinates": [("F5", lambda o: len(attr(o.self, "_binnings")) > 1 and on_open_edge(o))]}


@contract(SP + "TransformedHistogramMixin.fill_n", props=["C15"])
class _sp_fill_n:
    bounded = True
    bound_note = BOUND

    def configs():
        return [{"cls": "PolarHistogram", "shape": (1, 2), "d": 2, "n": 2}, {"cls": "RadialHistogram", "shape": (2,), "d": 3, "n": 1},
                {"cls": "CylindricalHistogram", "shape": (1, 2, 1), "d": 3, "n": 1}]

    def inputs(b):
        c = b.cfg
        return dict(self=special_hist(b, c.cls, c.shape), values=b.array("p", (c.n, c.d)))

    @ensures("equals_folding_fill_over_the_points")
    def _(a, old, result):
        cls = a._cfg_cls
        binnings = attr(old.self, "_binnings")
        shape = tuple(len(bins_of(x)) for x in binnings)
        pts = [expected(cls, p) for p in aslist(old.values)]
        f0, f1 = F(old.self), F(a.self)
        cs = []
        for pos, cell in enumerate(itertools.product(*[range(s) for s in shape])):
            add = 0
            for q in pts:
                ok = inbin(bins_of(binnings[0]), cell[0], q[0]) if len(binnings) == 1 else cell_pred(binnings, cell, q)
                add = add + If(ok, 1, 0)
            cs.append(f1[pos] == f0[pos] + add)
        return And(*cs)


# ---------------------------------------------------------------------------------------------- projections of special classes

def _spproj_cfgs():
    return [{"cls": "PolarHistogram", "shape": (2, 1), "axes": (0,), "want": "RadialHistogram"},
            {"cls": "PolarHistogram", "shape": (2, 1), "axes": ("phi",), "want": "AzimuthalHistogram"},
            {"cls": "SphericalHistogram", "shape": (1, 2, 1), "axes": (1, 2), "want": "SphericalSurfaceHistogram"},
            {"cls": "SphericalHistogram", "shape": (1, 2, 1), "axes": (2, 1), "want": "SphericalSurfaceHistogram"},
            {"cls": "SphericalHistogram", "shape": (1, 2, 1), "axes": (0,), "want": "RadialHistogram"},
            {"cls": "SphericalHistogram", "shape": (1, 2, 1), "axes": (0, 1), "want": "Histogram2D"},
            {"cls": "CylindricalHistogram", "shape": (2, 1, 2), "axes": (1, 2), "want": "CylindricalSurfaceHistogram"},
            {"cls": "CylindricalHistogram", "shape": (2, 1, 2), "axes": (0, 1), "want": "PolarHistogram"},
            {"cls": "CylindricalHistogram", "shape": (2, 1, 2), "axes": (1,), "want": "AzimuthalHistogram"},
            {"cls": "CylindricalHistogram", "shape": (2, 1, 2), "axes": ("rho",), "want": "RadialHistogram"},
            {"cls": "CylindricalSurfaceHistogram", "shape": (2, 1), "axes": (0,), "want": "AzimuthalHistogram"},
            # axes that are neither a radius nor an azimuth have no special class: theta, z
            {"cls": "SphericalSurfaceHistogram", "shape": (2, 1), "axes": (0,), "want": "Histogram1D"},
            {"cls": "SphericalSurfaceHistogram", "shape": (2, 1), "axes": ("theta",), "want": "Histogram1D"},
            {"cls": "SphericalHistogram", "shape": (1, 2, 1), "axes": (1,), "want": "Histogram1D"},
            {"cls": "CylindricalSurfaceHistogram", "shape": (2, 1), "axes": ("z",), "want": "Histogram1D"},
            {"cls": "CylindricalHistogram", "shape": (2, 1, 2), "axes": (2,), "want": "Histogram1D"}]


AXN = {"PolarHistogram": ("r", "phi"), "SphericalHistogram": ("r", "theta", "phi"), "CylindricalHistogram": ("rho", "phi", "z"),
       "CylindricalSurfaceHistogram": ("phi", "z"), "SphericalSurfaceHistogram": ("theta", "phi")}


@contract(SP + "TransformedHistogramMixin.projection", props=["C15", "C09"])
class _sp_projection:
    bounded = True
    bound_note = BOUND
    configs = staticmethod(_spproj_cfgs)

    def inputs(b):
        c = b.cfg
        bins = nd_binnings(b, c.shape, ["static"] * len(c.shape))
        h = histnd(b, "h", bins, c.shape, cls=SP + c.cls, meta={"name": None, "axis_names": AXN[c.cls]})
        return dict(self=h, axes=tuple(c.axes))

    def invoke(I, fn, a, cfg):
        if I is not None:
            return I.call(I.getattr(a.self, "projection"), list(a.axes), {})
        return a.self.projection(*a.axes)

    @ensures("matching_special_type_and_marginal_contents")
    def _(a, old, result):
        names = AXN[a._cfg_cls]
        shape = shape_of(attr(old.self, "_frequencies"))
        kept = sorted(names.index(x) if isinstance(x, str) else x for x in old.axes)
        f0 = attr(old.self, "_frequencies")
        wf = []
        for cell in itertools.product(*[range(shape[k]) for k in kept]):
            sf = 0
            for full in itertools.product(*[range(s) for s in shape]):
                if all(full[k] == c for k, c in zip(kept, cell)):
                    sf = sf + f0[full]
            wf.append(sf)
        cs = [typename(result) == a._cfg_want, same(F(result), wf), same_hist(old.self, a.self)]
        if a._cfg_want == "CylindricalSurfaceHistogram":
            cs.append(attr(result, "_meta_data").get("radius") == bins_of(attr(old.self, "_binnings")[0])[-1][1])
        return And(*cs)


# ---------------------------------------------------------------------------------------------- bin measures (C16)

def _bs_cfgs():
    return [{"cls": "RadialHistogram", "shape": (2,)}, {"cls": "AzimuthalHistogram", "shape": (2,)}, {"cls": "PolarHistogram", "shape": (2, 2)},
            {"cls": "SphericalSurfaceHistogram", "shape": (2, 1)}, {"cls": "SphericalHistogram", "shape": (2, 2, 1)},
            {"cls": "CylindricalSurfaceHistogram", "shape": (1, 2)}, {"cls": "CylindricalHistogram", "shape": (2, 1, 2)},
            {"cls": "CylindricalSurfaceHistogram", "shape": (1, 2), "radius": True}]


def measure(cls, edges):
    """true measure of one bin; edges = [(l, r) per axis]"""
    if cls == "RadialHistogram":
        (r1, r2), = edges
        return (r2 * r2 - r1 * r1) * PI
    if cls == "AzimuthalHistogram":
        (p1, p2), = edges
        return p2 - p1
    if cls == "PolarHistogram":
        (r1, r2), (p1, p2) = edges
        return 0.5 * (r2 * r2 - r1 * r1) * (p2 - p1)
    if cls == "SphericalSurfaceHistogram":
        (t1, t2), (p1, p2) = edges
        return (cos(t1) - cos(t2)) * (p2 - p1)
    if cls == "SphericalHistogram":
        (r1, r2), (t1, t2), (p1, p2) = edges
        return (r2 * r2 * r2 - r1 * r1 * r1) / 3 * (cos(t1) - cos(t2)) * (p2 - p1)
    if cls == "CylindricalSurfaceHistogram":
        (p1, p2), (z1, z2) = edges
        return (p2 - p1) * (z2 - z1)
    (r1, r2), (p1, p2), (z1, z2) = edges
    return 0.5 * (r2 * r2 - r1 * r1) * (p2 - p1) * (z2 - z1)


@contract(SP + "PolarHistogram.bin_sizes", props=["C16"], name="special bin_sizes")
class _bin_sizes:
    bounded = True
    bound_note = BOUND
    configs = staticmethod(_bs_cfgs)

    def inputs(b):
        c = b.cfg
        return dict(self=special_hist(b, c.cls, c.shape))

    def invoke(I, fn, a, cfg):
        nd = len(cfg.shape) > 1        # total_size is an attribute of the N-D classes
        if I is not None:
            return (I.getattr(a.self, "bin_sizes"), I.getattr(a.self, "densities"), I.getattr(a.self, "total_size") if nd else None)
        return (a.self.bin_sizes, a.self.densities, a.self.total_size if nd else None)

    @ensures("true_measure_of_each_bin")
    def _(a, old, result):
        cls = a._cfg_cls
        bs = [bins_of(x) for x in attr(old.self, "_binnings")]
        shape = tuple(len(x) for x in bs)
        sizes = elems(result[0])
        cs = [shape_of(result[0]) == shape]
        for pos, cell in enumerate(itertools.product(*[range(n) for n in shape])):
            cs.append(close(sizes[pos], measure(cls, [bs[ax][k] for ax, k in enumerate(cell)])))
        if result[2] is not None:       # the measure of the covered region is the sum of the bins' measures
            cs.append(close(result[2], total(sizes)))
        return And(same_hist(old.self, a.self), *cs)

    @ensures("densities_times_sizes_are_frequencies")
    def _(a, old, result):
        sizes, dens, f = elems(result[0]), elems(result[1]), F(old.self)
        # densities are frequencies / bin_sizes (hence densities * bin_sizes == frequencies wherever the measure is non-zero)
        return And(*[Implies(sizes[k] != 0, close(dens[k], div(f[k], sizes[k]))) for k in range(len(f))])

    @ensures("measures_are_additive_under_merging")     # (r1,r2)+(r2,r3) = (r1,r3) etc.: polynomial / telescoping identities
    def _(a, old, result):
        cls = a._cfg_cls
        bs = [bins_of(x) for x in attr(old.self, "_binnings")]
        if len(bs[0]) < 2:
            return True
        (l0, r0), (l1, r1) = bs[0][0], bs[0][1]
        rest = [b_[0] for b_ in bs[1:]]
        return Implies(r0 == l1, close(measure(cls, [(l0, r0)] + rest) + measure(cls, [(l1, r1)] + rest), measure(cls, [(l0, r1)] + rest)))
