"""Sidecar contracts for /repo/src/physt (no repository file is edited)."""
