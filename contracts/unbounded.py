"""Unbounded contracts for element-wise histogram operations: the BIN COUNT is a symbolic integer, frequencies / errors2 /
bins are z3 array terms (semantics S), clauses are quantified over all bins.  These obligations are counted as proved.
(C05, C06, C12, C13, C16)"""
import numpy as np
from pyvc.vc import contract, ensures, raises
from pyvc.spec import *
from .common import *
from .common import statistics

HB = "physt.histogram_base:HistogramBase"
H1K = "physt.histogram1d:Histogram1D"


def static_binning_t(b, name, n):
    bins = b.tarray(name + ".bins", (n, 2))
    b.assume(forall(0, n, lambda i: bins[i, 0] < bins[i, 1]))
    b.assume(forall(0, n - 1, lambda i: bins[i, 1] <= bins[i + 1, 0]))
    return b.obj(STB, _consecutive=None, _bins=bins, _numpy_bins=None, _includes_right_edge=True, _adaptive=False)


def hist1d_t(b, name, n, dtype="float64", binning=None, stats="valid"):
    binning = binning or static_binning_t(b, "B", n)
    freq = b.tarray(name + ".freq", (n,), dtype)
    err2 = b.tarray(name + ".err2", (n,), dtype)
    missed = b.array(name + ".missed", (3,), dtype)
    b.assume(forall(0, n, lambda i: And(freq[i] >= 0, err2[i] >= 0)))
    nonneg(b, missed)
    kw = dict(_binnings=[binning], _frequencies=freq, _errors2=err2, _missed=missed, _dtype=b.dtype(dtype),
              _meta_data={"name": None, "axis_names": ("axis0",)}, keep_missed=True)
    if stats:
        kw["_stats"] = statistics(b, name + ".stats", valid=True)
    return b.obj(H1, **kw)


def nbins(b):
    n = b.int("n")
    b.assume(n >= 0)
    return n


def Fq(h): return attr(h, "_frequencies")
def Eq(h): return attr(h, "_errors2")
def count_of(h): return shape_of(Fq(h))[0]


def _scal_cfgs():
    return [{"dtype": d, "ck": k} for d in ("int64", "float64") for k in ("int", "float")]


def scalar(b):
    return b.int("c") if b.cfg.ck == "int" else b.real("c")


@contract(HB + ".__imul__", props=["C06", "C13", "C14", "C18"], name=HB + ".__imul__[any bin count]")
class _imul_u:
    configs = staticmethod(_scal_cfgs)

    def inputs(b):
        n = nbins(b)
        c = scalar(b)          # any sign: a negative factor is refused as soon as some content is positive
        return dict(self=hist1d_t(b, "h", n, b.cfg.dtype), other=c)

    @raises(ValueError, "negative_factor_on_a_histogram_with_contents_is_refused_and_nothing_but_the_dtype_changes",
            state=lambda a, old: And(same(Fq(old.self), Fq(a.self)) if dtype_of(Fq(old.self)) == dtype_of(Fq(a.self)) else
                                     forall(0, count_of(old.self), lambda i: Fq(a.self)[i] == Fq(old.self)[i]),
                                     forall(0, count_of(old.self), lambda i: Eq(a.self)[i] == Eq(old.self)[i]),
                                     same(elems(attr(a.self, "_missed")), elems(attr(old.self, "_missed"))),
                                     dtype_of(Fq(a.self)) == attr(a.self, "_dtype"), dtype_of(Eq(a.self)) == attr(a.self, "_dtype")))
    def _(o):
        n = count_of(o.self)
        f0 = Fq(o.self)
        return And(o.other < 0, Not(forall(0, n, lambda i: f0[i] == 0)))

    @ensures("every_content_times_c_every_squared_error_times_c_squared")
    def _(a, old, result):
        n, c = count_of(old.self), old.other
        f0, f1, e0, e1 = Fq(old.self), Fq(a.self), Eq(old.self), Eq(a.self)
        return And(result is a.self, count_of(a.self) == n,
                   forall(0, n, lambda i: And(f1[i] == f0[i] * c, e1[i] == e0[i] * c * c)),
                   same(elems(attr(a.self, "_missed")), [x * c for x in elems(attr(old.self, "_missed"))]))

    @ensures("dtype_promoted_and_consistent_bins_untouched")
    def _(a, old, result):
        want = np.promote_types(attr(old.self, "_dtype"), np.float64 if a._cfg_ck == "float" else np.int64)
        return And(attr(a.self, "_dtype") == want, dtype_of(Fq(a.self)) == want, dtype_of(Eq(a.self)) == want,
                   same(attr(attr(old.self, "_binnings")[0], "_bins"), attr(attr(a.self, "_binnings")[0], "_bins")))

    @ensures("recorded_weight_scales_by_c_moments_minimum_and_maximum_are_those_of_the_raw_data")
    def _(a, old, result):
        s, r, c = attr(old.self, "_stats"), attr(a.self, "_stats"), old.other
        # weighted sums scale linearly with the weights (so mean = sum / weight and the variance are invariant), extremes stay
        return And(r.weight == s.weight * c, r.sum == s.sum * c, r.sum2 == s.sum2 * c, r.min == s.min, r.max == s.max,
                   Implies(And(c > 0, s.weight > 0), lambda: And(close(div(r.sum, r.weight), div(s.sum, s.weight)),
                                                                  close(div(r.sum2, r.weight), div(s.sum2, s.weight)))))


@contract(HB + ".__itruediv__", props=["C06", "C13"], name=HB + ".__itruediv__[any bin count]")
class _idiv_u:
    configs = staticmethod(_scal_cfgs)

    def inputs(b):
        n = nbins(b)
        c = scalar(b)
        b.assume(c > 0)
        return dict(self=hist1d_t(b, "h", n, b.cfg.dtype), other=c)

    @ensures("every_content_divided_by_c_every_squared_error_by_c_squared")
    def _(a, old, result):
        n, c = count_of(old.self), old.other
        f0, f1, e0, e1 = Fq(old.self), Fq(a.self), Eq(old.self), Eq(a.self)
        return And(result is a.self, count_of(a.self) == n,
                   forall(0, n, lambda i: And(close(f1[i] * c, f0[i]), close(e1[i] * c * c, e0[i]))),
                   attr(a.self, "_dtype") == np.dtype("float64"), dtype_of(Fq(a.self)) == np.dtype("float64"))


@contract(HB + ".__iadd__", props=["C05", "C13", "C14"], name=HB + ".__iadd__[same bins, any bin count]")
class _iadd_u:
    def configs():
        return [{"d1": "int64", "d2": "int64"}, {"d1": "int64", "d2": "float64"}, {"d1": "float64", "d2": "float64"}]

    def inputs(b):
        n = nbins(b)
        binning = static_binning_t(b, "B", n)
        other_binning = b.obj(STB, _consecutive=None, _bins=attr(binning, "_bins"), _numpy_bins=None, _includes_right_edge=True, _adaptive=False)
        return dict(self=hist1d_t(b, "h", n, b.cfg.d1, binning), other=hist1d_t(b, "o", n, b.cfg.d2, other_binning))

    @ensures("contents_and_errors_add_bin_by_bin")
    def _(a, old, result):
        n = count_of(old.self)
        f0, f1, e0, e1, g, ge = Fq(old.self), Fq(a.self), Eq(old.self), Eq(a.self), Fq(old.other), Eq(old.other)
        m0, m1, mo = (elems(attr(x, "_missed")) for x in (old.self, a.self, old.other))
        want = np.promote_types(attr(old.self, "_dtype"), attr(old.other, "_dtype"))
        return And(result is a.self, count_of(a.self) == n,
                   forall(0, n, lambda i: And(f1[i] == f0[i] + g[i], e1[i] == e0[i] + ge[i])),
                   same(m1, [x + y for x, y in zip(m0, mo)]),
                   attr(a.self, "_dtype") == want, dtype_of(Fq(a.self)) == want,
                   same(Fq(old.other), Fq(a.other)), same(Eq(old.other), Eq(a.other)))

    @ensures("statistics_add")
    def _(a, old, result):
        s, o, r = attr(old.self, "_stats"), attr(old.other, "_stats"), attr(a.self, "_stats")
        return And(r.sum == s.sum + o.sum, r.sum2 == s.sum2 + o.sum2, r.weight == s.weight + o.weight,
                   r.min == fmin(s.min, o.min), r.max == fmax(s.max, o.max), same(attr(old.other, "_stats"), attr(a.other, "_stats")))


@contract(HB + ".__iadd__", props=["C05", "C18"], name=HB + ".__iadd__[refusals, any bin count]")
class _iadd_refuse_u:
    """h += other for ANY number of bins is refused, with every content of both operands unchanged, when the other operand has
    another number of bins, bins that differ somewhere beyond np.allclose's tolerance (no adaptivity), another dimension, or is not
    a histogram (free arithmetics off)"""
    def configs():
        return [{"case": c} for c in ("other_count", "other_edge", "other_dimension", "not_a_histogram")]

    def inputs(b):
        n = nbins(b)
        c = b.cfg.case
        me = hist1d_t(b, "h", n, "int64")
        if c == "other_count":
            m = b.int("m")
            b.assume(And(m >= 0, m != n))
            other = hist1d_t(b, "o", m, "int64", static_binning_t(b, "C", m))
        elif c == "other_edge":
            ob = static_binning_t(b, "C", n)
            k = b.int("k")
            B, C = attr(attr(me, "_binnings")[0], "_bins"), attr(ob, "_bins")
            # some left edge differs by more than atol + rtol * |edge| (np.allclose), here by more than 1 + |edge|
            b.assume(And(k >= 0, k < n, C[k, 0] - B[k, 0] > 1 + absolute(C[k, 0])))
            other = hist1d_t(b, "o", n, "int64", ob)
        elif c == "other_dimension":
            from .unbounded import hist2d_t as _h2
            other = _h2(b, "o", b.int("p"), b.int("q"))
        else:
            other = b.real("x")
        return dict(self=me, other=other)

    @raises((ValueError, TypeError), "incompatible_operands_are_refused_nothing_changes",
            state=lambda a, old: And(same(Fq(old.self), Fq(a.self)), same(Eq(old.self), Eq(a.self)),
                                     same(elems(attr(old.self, "_missed")), elems(attr(a.self, "_missed"))),
                                     same(attr(attr(old.self, "_binnings")[0], "_bins"), attr(attr(a.self, "_binnings")[0], "_bins")),
                                     attr(a.self, "_dtype") == attr(old.self, "_dtype"),
                                     Implies(is_obj(old.other), lambda: And(same(Fq(old.other), Fq(a.other)), same(Eq(old.other), Eq(a.other))))))
    def _(o):
        return True


@contract(HB + ".densities", props=["C16"], name="Histogram1D.densities[any bin count]")
class _dens_u:
    def configs():
        return [{"dtype": "float64"}, {"dtype": "int64"}, {"dtype": "int16"}]

    def inputs(b):
        n = nbins(b)
        b.assume(n >= 1)
        return dict(self=hist1d_t(b, "h", n, b.cfg.dtype))

    NAMES = ("bin_sizes", "bin_left_edges", "bin_right_edges", "total_width", "total", "min_edge", "max_edge", "cumulative_frequencies")

    def invoke(I, fn, a, cfg):
        get = (lambda n: I.getattr(a.self, n)) if I is not None else (lambda n: getattr(a.self, n))
        return (get("densities"), get("bin_widths"), get("bin_centers"), {n: get(n) for n in _dens_u.NAMES})

    @ensures("sizes_edges_total_width_and_running_sums_for_every_bin")
    def _(a, old, result):
        g = result[3]
        n = count_of(old.self)
        f = Fq(old.self)
        bins = attr(attr(old.self, "_binnings")[0], "_bins")
        s, l, r, cum = g["bin_sizes"], g["bin_left_edges"], g["bin_right_edges"], g["cumulative_frequencies"]
        from pyvc.spec import sumr_t
        wide = np.ones(1, dtype_of(f)).cumsum().dtype
        return And(shape_of(s)[0] == n, shape_of(l)[0] == n, shape_of(r)[0] == n, shape_of(cum)[0] == n,
                   forall(0, n, lambda i: And(s[i] == bins[i, 1] - bins[i, 0], l[i] == bins[i, 0], r[i] == bins[i, 1],
                                              cum[i] == sumr_t(f, 0, i + 1))),
                   g["total_width"] == total_t(result[1]), g["total"] == total_t(f), cum[n - 1] == g["total"],
                   g["min_edge"] == bins[0, 0], g["max_edge"] == bins[n - 1, 1], dtype_of(cum) == wide)

    @ensures("densities_times_widths_are_frequencies_for_every_bin")
    def _(a, old, result):
        d, w, c = result[:3]
        n = count_of(old.self)
        f = Fq(old.self)
        bins = attr(attr(old.self, "_binnings")[0], "_bins")
        return And(forall(0, n, lambda i: And(w[i] == bins[i, 1] - bins[i, 0], w[i] > 0, close(d[i] * w[i], f[i]), 2 * c[i] == bins[i, 0] + bins[i, 1])),
                   same(Fq(old.self), Fq(a.self)))


@contract(H1K + ".copy", props=["C12"], name="Histogram1D.copy[any bin count]")
class _copy_u:
    def inputs(b):
        n = nbins(b)
        return dict(self=hist1d_t(b, "h", n, "int64"))

    @ensures("equal_contents_nothing_shared")
    def _(a, old, result):
        return And(result is not a.self, same(Fq(result), Fq(old.self)), same(Eq(result), Eq(old.self)),
                   same(elems(attr(result, "_missed")), elems(attr(old.self, "_missed"))),
                   not shares_memory(attr(result, "_missed"), attr(a.self, "_missed")),
                   Fq(result) is not Fq(a.self), Eq(result) is not Eq(a.self),
                   attr(result, "_binnings")[0] is not attr(a.self, "_binnings")[0],
                   attr(result, "_meta_data") is not attr(a.self, "_meta_data"),
                   same(attr(attr(result, "_binnings")[0], "_bins"), attr(attr(old.self, "_binnings")[0], "_bins")),
                   same(Fq(old.self), Fq(a.self)), same(attr(old.self, "_stats"), attr(result, "_stats")))


@contract(HB + ".normalize", props=["C06"], name=HB + ".normalize[in place, any bin count]")
class _normalize_u:
    def inputs(b):
        n = nbins(b)
        h = hist1d_t(b, "h", n, "float64")
        b.assume(total_t(Fq(h)) > 0)
        return dict(self=h, inplace=True)

    @ensures("proportions_unchanged")       # f'[i] * total == f[i] for every bin (that the new total is 1 needs linearity of the
    def _(a, old, result):                  # sum over an unbounded range: covered by the bounded contract only)
        n = count_of(old.self)
        f0, f1, e0, e1 = Fq(old.self), Fq(a.self), Eq(old.self), Eq(a.self)
        tot = total_t(f0)
        return And(result is a.self, count_of(a.self) == n,
                   forall(0, n, lambda i: And(close(f1[i] * tot, f0[i]), close(e1[i] * tot * tot, e0[i]))))


def binof_sound(bins, n, v, result):
    """what find_bin / fill report, for ANY number of bins: the reported bin contains the value (last bin closed);
    -1 means below the first bin, n above the last one, None inside a gap between two neighbouring bins."""
    if result is None:
        return exists_gap(bins, n, v)
    return And(Implies(result == -1, And(n > 0, v < bins[0, 0])),
               Implies(result == n, And(n > 0, v > bins[n - 1, 1])),
               Implies(And(result >= 0, result < n),
                       lambda: And(bins[result, 0] <= v, Or(v < bins[result, 1], And(result == n - 1, v == bins[result, 1])))),
               result >= -1, result <= n)


def exists_gap(bins, n, v):
    if isinstance(n, int):
        return Or(*[And(bins[k, 1] <= v, v < bins[k + 1, 0]) for k in range(n - 1)]) if n > 1 else False
    import z3
    from pyvc.values import CURRENT, term_of, mk
    k = z3.Int(CURRENT["interp"].ctx.fresh_name("g"))
    ks = Sym_int(k)
    body = And(ks >= 0, ks < n - 1, bins[ks, 1] <= v, v < bins[ks + 1, 0])
    return mk(z3.Exists([k], term_of(body, "bool")), "bool")


def Sym_int(t):
    from pyvc.values import Sym
    return Sym(t, "int")


@contract(H1K + ".find_bin", props=["C03"], name=H1K + ".find_bin[any bin count]")
class _find_bin_u:
    def inputs(b):
        n = nbins(b)
        b.assume(n >= 1)        # requires: at least one bin
        return dict(self=hist1d_t(b, "h", n, "int64"), value=b.real("v"))

    @ensures("the_reported_bin_contains_the_value")
    def _(a, old, result):
        bins = attr(attr(old.self, "_binnings")[0], "_bins")
        return binof_sound(bins, count_of(old.self), old.value, result)

    @ensures("nothing_changes")
    def _(a, old, result):
        return And(same(Fq(old.self), Fq(a.self)), same(Eq(old.self), Eq(a.self)), same(elems(attr(old.self, "_missed")), elems(attr(a.self, "_missed"))))


@contract(H1K + ".fill", props=["C03", "C13", "C14"], name=H1K + ".fill[any bin count]")
class _fill_u:
    def configs():
        return [{"dtype": "int64", "wk": "default"}, {"dtype": "int64", "wk": "float"}, {"dtype": "float64", "wk": "int"}]

    def inputs(b):
        n = nbins(b)
        b.assume(n >= 1)        # requires: at least one bin
        kw = dict(self=hist1d_t(b, "h", n, b.cfg.dtype), value=b.real("v"))
        if b.cfg.wk != "default":
            w = b.real("w") if b.cfg.wk == "float" else b.int("w")
            b.assume(w >= 0)
            kw["weight"] = w
        return kw

    @ensures("exactly_the_reported_bin_is_incremented")
    def _(a, old, result):
        n = count_of(old.self)
        bins = attr(attr(old.self, "_binnings")[0], "_bins")
        w = old.weight if hasattr(old, "weight") else 1
        f0, f1, e0, e1 = Fq(old.self), Fq(a.self), Eq(old.self), Eq(a.self)
        m0, m1 = elems(attr(old.self, "_missed")), elems(attr(a.self, "_missed"))
        if result is None:
            return And(exists_gap(bins, n, old.value), forall(0, n, lambda i: And(f1[i] == f0[i], e1[i] == e0[i])), isnan(m1[0]), isnan(m1[1]))
        inside = And(result >= 0, result < n)
        return And(binof_sound(bins, n, old.value, result), count_of(a.self) == n,
                   forall(0, n, lambda i: And(f1[i] == f0[i] + If(i == result, w, 0), e1[i] == e0[i] + If(i == result, w * w, 0))),
                   m1[0] == m0[0] + If(result == -1, w, 0), m1[1] == m0[1] + If(result == n, w, 0), m1[2] == m0[2])

    @ensures("statistics_follow_the_raw_value_dtype_promoted")
    def _(a, old, result):
        n = count_of(old.self)
        w = old.weight if hasattr(old, "weight") else 1
        s0, s1 = attr(old.self, "_stats"), attr(a.self, "_stats")
        inside = (result is not None) and And(result >= 0, result < n)
        want = "float64" if (hasattr(old, "weight") and typename(old.weight) == "float") else str(attr(old.self, "_dtype"))
        v = old.value
        return And(Implies(inside, And(s1.weight == s0.weight + w, s1.sum == s0.sum + w * v, s1.sum2 == s0.sum2 + w * v * v,
                                       s1.min == fmin(s0.min, v), s1.max == fmax(s0.max, v))),
                   Implies(Not(inside), same(s0, s1)),
                   str(attr(a.self, "_dtype")) == want, str(dtype_of(Fq(a.self))) == want, str(dtype_of(Eq(a.self))) == want)


@contract(H1K + ".__init__", props=["C18", "C13", "C01"], name=H1K + ".__init__[any bin count]")
class _init_u:
    def configs():
        return [{"case": c} for c in ("ok", "no_errors2", "wrong_shape", "negative", "negative_errors2", "int_input")]

    def inputs(b):
        n = nbins(b)
        c = b.cfg.case
        binning = static_binning_t(b, "B", n)
        dt = "int64" if c == "int_input" else "float64"
        freq = b.tarray("f", (n + 1,) if c == "wrong_shape" else (n,), dt)
        err2 = b.tarray("e", (n,), dt)
        if c != "negative":
            b.assume(forall(0, n + 1 if c == "wrong_shape" else n, lambda i: freq[i] >= 0))
        else:
            b.assume(And(n >= 1, freq[0] < 0))
        if c != "negative_errors2":
            b.assume(forall(0, n, lambda i: err2[i] >= 0))
        else:
            b.assume(And(n >= 1, err2[0] < 0))
        kw = dict(self=b.obj(H1), binning=binning, frequencies=freq)
        if c != "no_errors2":
            kw["errors2"] = err2
        return kw

    @ensures("stores_exactly_what_was_given_well_formed")
    def _(a, old, result):
        n = shape_of(attr(old.binning, "_bins"))[0]
        f, e = Fq(a.self), Eq(a.self)
        f0 = old.frequencies
        cs = [a._cfg_case in ("ok", "no_errors2", "int_input"), count_of(a.self) == n, shape_of(e)[0] == n,
              forall(0, n, lambda i: And(f[i] == f0[i], e[i] >= 0, f[i] >= 0)),
              attr(a.self, "_dtype") == dtype_of(f0), dtype_of(f) == dtype_of(f0), dtype_of(e) == dtype_of(f0),
              same(elems(attr(a.self, "_missed")), [0, 0, 0]), a.self.keep_missed is True]
        if hasattr(old, "errors2"):
            cs.append(forall(0, n, lambda i: e[i] == old.errors2[i]))
        else:
            cs.append(forall(0, n, lambda i: e[i] == f0[i]))      # default: errors2 = |frequencies|
        return And(*cs)

    @raises(ValueError, "wrong_shape_or_negative_values_refused")
    def _(o):
        return o._cfg_case in ("wrong_shape", "negative", "negative_errors2")


@contract(H1K + ".__getitem__", props=["C11"], name=H1K + ".__getitem__[int, any bin count]")
class _getitem_int_u:
    def inputs(b):
        n = nbins(b)
        return dict(self=hist1d_t(b, "h", n, "int64"), index=b.int("i"))

    def invoke(I, fn, a, cfg):
        if I is not None:
            return I.call(fn, [a.self, a.index], {})
        return fn(a.self, a.index)

    @ensures("edges_and_content_of_that_bin_negative_indices_from_the_end")
    def _(a, old, result):
        n, i = count_of(old.self), old.index
        bins = attr(attr(old.self, "_binnings")[0], "_bins")
        edges, content = result
        k = If(i < 0, i + n, i)
        return And(-n <= i, i < n, edges[0] == bins[k, 0], edges[1] == bins[k, 1], content == Fq(old.self)[k],
                   same(Fq(old.self), Fq(a.self)))

    @raises(IndexError, "out_of_range_refused")
    def _(o):
        n = count_of(o.self)
        return Or(o.index >= n, o.index < -n)


# ---------------------------------------------------------------------------------------------- slices (C11, C12)

@contract(H1K + ".__getitem__", props=["C11", "C12"], name=H1K + ".__getitem__[slice, any bin count]")
class _getitem_slice_u:
    """h[a:b] for ANY number of bins: the selected bins with their contents and errors; what is cut off goes to underflow /
    overflow, so nothing is lost; the source is untouched and shares nothing with the selection"""
    probe = "quantifier-free"

    def lemmas_():
        from pyvc import induct
        return [induct.sum_split_lemma("int"), induct.sum_shift_lemma("int")]
    lemmas = lemmas_()

    def configs():
        return [{"form": "a:b"}, {"form": ":b"}, {"form": "a:"}, {"form": "-a:"}, {"form": "a:-b"}, {"form": "-a:-b"}]

    def inputs(b):
        n = nbins(b)
        form = b.cfg.form
        lo = b.int("a") if not form.startswith(":") else None
        hi = b.int("b") if not form.endswith(":") else None
        # requires: the bounds have the signs of the form (negative ones count from the end) and select a non-empty run of bins
        if lo is not None:
            b.assume(And(lo < 0, lo >= -n) if form.startswith("-") else And(lo >= 0, lo < n))
        if hi is not None:
            b.assume(And(hi < 0, hi > -n) if form.endswith("-b") else And(hi > 0, hi <= n))
        lo_v = 0 if lo is None else (lo + n if form.startswith("-") else lo)
        hi_v = n if hi is None else (hi + n if form.endswith("-b") else hi)
        b.assume(lo_v < hi_v)
        return dict(self=hist1d_t(b, "h", n, "int64", stats=None), index=slice(lo, hi, None))

    def invoke(I, fn, a, cfg):
        if I is not None:
            return I.call(fn, [a.self, a.index], {})
        return fn(a.self, a.index)

    def _bounds(o):
        """the selected run [lo, hi) of bins, negative bounds counted from the end"""
        n = count_of(o.self)
        form = o._cfg_form
        lo = 0 if o.index.start is None else (o.index.start + n if form.startswith("-") else o.index.start)
        hi = n if o.index.stop is None else (o.index.stop + n if form.endswith("-b") else o.index.stop)
        return lo, hi, n

    def using(a, old, result):
        from pyvc import induct
        from pyvc.values import term_of, raw
        lo, hi, n = _getitem_slice_u._bounds(old)
        t = lambda x: term_of(raw(x), "int")
        f0, f1 = Fq(old.self).term, Fq(result).term
        import z3
        return [(induct.sum_split_lemma("int"), (f0, z3.IntVal(0), t(lo), t(hi))),
                (induct.sum_split_lemma("int"), (f0, z3.IntVal(0), t(hi), t(n))),
                (induct.sum_shift_lemma("int"), (f0, f1, t(lo), t(hi) - t(lo)))]

    @ensures("the_selected_bins_with_their_contents_and_errors")
    def _(a, old, result):
        lo, hi, n = _getitem_slice_u._bounds(old)
        b0, b1 = attr(attr(old.self, "_binnings")[0], "_bins"), attr(attr(result, "_binnings")[0], "_bins")
        f0, f1, e0, e1 = Fq(old.self), Fq(result), Eq(old.self), Eq(result)
        return And(typename(result) == "Histogram1D", count_of(result) == hi - lo, shape_of(b1)[0] == hi - lo,
                   forall(0, hi - lo, lambda j: And(f1[j] == f0[lo + j], e1[j] == e0[lo + j], b1[j, 0] == b0[lo + j, 0], b1[j, 1] == b0[lo + j, 1])),
                   attr(result, "_dtype") == attr(old.self, "_dtype"))

    @ensures("what_is_cut_off_goes_to_underflow_and_overflow_nothing_is_lost")
    def _(a, old, result):
        lo, hi, n = _getitem_slice_u._bounds(old)
        f0 = Fq(old.self)
        m0, m1 = elems(attr(old.self, "_missed")), elems(attr(result, "_missed"))
        from pyvc.spec import sumr_t
        return And(m1[0] == m0[0] + sumr_t(f0, 0, lo), m1[1] == m0[1] + sumr_t(f0, hi, n),
                   total_t(Fq(result)) + m1[0] + m1[1] == total_t(f0) + m0[0] + m0[1])

    @ensures("the_source_is_untouched")
    def _(a, old, result):
        return And(same(Fq(old.self), Fq(a.self)), same(Eq(old.self), Eq(a.self)), same(elems(attr(old.self, "_missed")), elems(attr(a.self, "_missed"))),
                   same(attr(attr(old.self, "_binnings")[0], "_bins"), attr(attr(a.self, "_binnings")[0], "_bins")), result is not a.self)


# ---------------------------------------------------------------------------------------------- projection of a 2-D histogram (C09, C12)

HNDK = "physt.histogram_nd:HistogramND"


def hist2d_t(b, name, n0, n1, dtype="int64"):
    bs = [static_binning_t(b, f"B{i}", n) for i, n in enumerate((n0, n1))]
    freq = b.tarray(name + ".freq", (n0, n1), dtype)
    err2 = b.tarray(name + ".err2", (n0, n1), dtype)
    missed = b.array(name + ".missed", (1,), dtype)
    i, j = None, None
    b.assume(forall(0, n0, lambda i: forall(0, n1, lambda j: And(freq[i, j] >= 0, err2[i, j] >= 0))))
    nonneg(b, missed)
    return b.obj(H2, _binnings=bs, _frequencies=freq, _errors2=err2, _missed=missed, _dtype=b.dtype(dtype),
                 _meta_data={"name": "nm", "axis_names": ("xx", "yy")}, keep_missed=True)


def line_sum(F, k, axis_kept, n_other):
    """sum of row k (axis_kept == 0) or column k (axis_kept == 1) of the 2-D array F over the other axis"""
    if isinstance(F, TArr_):
        import z3
        from pyvc.tarr import sum_fn, kind_of_dtype
        from pyvc.values import term_of, raw, mk, CURRENT
        j = z3.Int(CURRENT["interp"].ctx.fresh_name("j"))
        kt = term_of(raw(k), "int")
        line = z3.Lambda([j], z3.Select(F.term, kt, j) if axis_kept == 0 else z3.Select(F.term, j, kt))
        kd = kind_of_dtype(F.dtype)
        return mk(sum_fn(kd)(line, z3.IntVal(0), term_of(raw(n_other), "int")), kd)
    import numpy as _np
    A = _np.asarray(F)
    return total(A[k, :] if axis_kept == 0 else A[:, k])


from pyvc.values import TArr as TArr_


@contract(HNDK + ".projection", props=["C09", "C12"], name=HNDK + ".projection[2-D, any shape]")
class _projection_u:
    """the marginal of a 2-D histogram of ANY shape onto one axis (by index or by name)"""
    probe = "quantifier-free"

    def configs():
        return [{"axis": 0}, {"axis": 1}, {"axis": "yy"}, {"axis": "xx"}]

    def inputs(b):
        n0, n1 = b.int("n0"), b.int("n1")
        b.assume(And(n0 >= 1, n1 >= 1))
        return dict(self=hist2d_t(b, "h", n0, n1), axis=b.cfg.axis)

    def invoke(I, fn, a, cfg):
        if I is not None:
            return I.call(fn, [a.self, a.axis], {})
        return fn(a.self, a.axis)

    @ensures("contents_and_errors_are_summed_over_the_dropped_axis_bins_and_name_of_the_kept_axis")
    def _(a, old, result):
        kept = {"xx": 0, "yy": 1}.get(old.axis, old.axis)
        F0, E0 = attr(old.self, "_frequencies"), attr(old.self, "_errors2")
        n_kept, n_other = shape_of(F0)[kept], shape_of(F0)[1 - kept]
        f, e = attr(result, "_frequencies"), attr(result, "_errors2")
        b0, b1 = attr(attr(old.self, "_binnings")[kept], "_bins"), attr(attr(result, "_binnings")[0], "_bins")
        return And(typename(result) == "Histogram1D", shape_of(f)[0] == n_kept, shape_of(e)[0] == n_kept, shape_of(b1)[0] == n_kept,
                   forall(0, n_kept, lambda k: And(f[k] == line_sum(F0, k, kept, n_other), e[k] == line_sum(E0, k, kept, n_other),
                                                   b1[k, 0] == b0[k, 0], b1[k, 1] == b0[k, 1])),
                   tuple(attr(result, "_meta_data")["axis_names"]) == (("xx", "yy")[kept],), attr(result, "_meta_data").get("name") == "nm")

    @ensures("the_parent_is_untouched_and_shares_no_binning_object_with_the_projection")
    def _(a, old, result):
        return And(same(attr(old.self, "_frequencies"), attr(a.self, "_frequencies")), same(attr(old.self, "_errors2"), attr(a.self, "_errors2")),
                   *[attr(result, "_binnings")[0] is not bn for bn in attr(a.self, "_binnings")],
                   *[same(attr(x, "_bins"), attr(y, "_bins")) for x, y in zip(attr(old.self, "_binnings"), attr(a.self, "_binnings"))])


@contract(H2 + ".__init__", props=["C02", "C18", "C13"], name=H2 + ".__init__[any shape]")
class _init2d_u:
    """the constructor every ND construction ends in, for cell arrays of ANY shape: stores exactly the given contents, squared
    errors default to the contents, the missed weight is kept, wrong shapes and negative values are refused"""
    def configs():
        return [{"case": c} for c in ("ok", "no_errors2", "wrong_shape", "negative", "negative_errors2", "int_input")]

    def inputs(b):
        n0, n1 = b.int("n0"), b.int("n1")
        b.assume(And(n0 >= 1, n1 >= 1))
        c = b.cfg.case
        bs = [static_binning_t(b, f"B{i}", n) for i, n in enumerate((n0, n1))]
        dt = "int64" if c == "int_input" else "float64"
        m0 = n0 + 1 if c == "wrong_shape" else n0
        freq = b.tarray("f", (m0, n1), dt)
        err2 = b.tarray("e", (n0, n1), dt)
        if c != "negative":
            b.assume(forall(0, m0, lambda i: forall(0, n1, lambda j: freq[i, j] >= 0)))
        else:
            b.assume(freq[0, 0] < 0)
        if c != "negative_errors2":
            b.assume(forall(0, n0, lambda i: forall(0, n1, lambda j: err2[i, j] >= 0)))
        else:
            b.assume(err2[0, 0] < 0)
        missed = b.int("m") if c == "int_input" else b.real("m")
        b.assume(missed >= 0)
        kw = dict(self=b.obj(H2), binnings=bs, frequencies=freq, missed=missed)
        if c != "no_errors2":
            kw["errors2"] = err2
        return kw

    @ensures("stores_exactly_what_was_given_well_formed")
    def _(a, old, result):
        n0, n1 = [shape_of(attr(bn, "_bins"))[0] for bn in old.binnings]
        f, e = Fq(a.self), Eq(a.self)
        f0 = old.frequencies
        cs = [a._cfg_case in ("ok", "no_errors2", "int_input"), shape_of(f)[0] == n0, shape_of(f)[1] == n1, shape_of(e)[0] == n0, shape_of(e)[1] == n1,
              forall(0, n0, lambda i: forall(0, n1, lambda j: And(f[i, j] == f0[i, j], e[i, j] >= 0, f[i, j] >= 0))),
              attr(a.self, "_dtype") == dtype_of(f0), dtype_of(f) == dtype_of(f0), dtype_of(e) == dtype_of(f0),
              len(elems(attr(a.self, "_missed"))) == 1, elems(attr(a.self, "_missed"))[0] == old.missed,
              len(attr(a.self, "_binnings")) == 2]
        if hasattr(old, "errors2"):
            cs.append(forall(0, n0, lambda i: forall(0, n1, lambda j: e[i, j] == old.errors2[i, j])))
        else:
            cs.append(forall(0, n0, lambda i: forall(0, n1, lambda j: e[i, j] == f0[i, j])))      # default: errors2 = |frequencies|
        return And(*cs)

    @raises(ValueError, "wrong_shape_or_negative_values_refused")
    def _(o):
        return o._cfg_case in ("wrong_shape", "negative", "negative_errors2")


def line_prefix(F, i, j, axis):
    """running sum at cell (i, j) along `axis` of the 2-D array F: the first i + 1 cells of column j (axis 0) / first j + 1 of row i"""
    if isinstance(F, TArr_):
        import z3
        from pyvc.tarr import sum_fn, kind_of_dtype
        from pyvc.values import term_of, raw, mk, CURRENT
        t = z3.Int(CURRENT["interp"].ctx.fresh_name("t"))
        it, jt = term_of(raw(i), "int"), term_of(raw(j), "int")
        line = z3.Lambda([t], z3.Select(F.term, t, jt) if axis == 0 else z3.Select(F.term, it, t))
        kd = kind_of_dtype(F.dtype)
        return mk(sum_fn(kd)(line, z3.IntVal(0), (it if axis == 0 else jt) + 1), kd)
    import numpy as _np
    A = _np.asarray(F)
    return total(A[:i + 1, j] if axis == 0 else A[i, :j + 1])


@contract(HNDK + ".accumulate", props=["C09", "C12"], name=HNDK + ".accumulate[2-D, any shape]")
class _accumulate_u:
    """running sums of a 2-D histogram of ANY shape along exactly one axis (by index or by name); bins, names, squared errors and
    missed count are the parent's, the parent is untouched"""
    probe = "quantifier-free"

    def configs():
        return [{"axis": 0}, {"axis": 1}, {"axis": "yy"}]

    def inputs(b):
        n0, n1 = b.int("n0"), b.int("n1")
        b.assume(And(n0 >= 1, n1 >= 1))
        return dict(self=hist2d_t(b, "h", n0, n1), axis=b.cfg.axis)

    def invoke(I, fn, a, cfg):
        if I is not None:
            return I.call(fn, [a.self, a.axis], {})
        return fn(a.self, a.axis)

    @ensures("running_sums_along_exactly_that_axis")
    def _(a, old, result):
        ax = {"xx": 0, "yy": 1}.get(old.axis, old.axis)
        F0, f = attr(old.self, "_frequencies"), attr(result, "_frequencies")
        n0, n1 = shape_of(F0)
        return And(typename(result) == typename(old.self), shape_of(f)[0] == n0, shape_of(f)[1] == n1,
                   forall(0, n0, lambda i: forall(0, n1, lambda j: f[i, j] == line_prefix(F0, i, j, ax))),
                   attr(result, "_dtype") == attr(old.self, "_dtype"),
                   tuple(attr(result, "_meta_data")["axis_names"]) == ("xx", "yy"))

    @ensures("bins_of_both_axes_are_the_parents_and_the_parent_is_untouched")
    def _(a, old, result):
        return And(same(attr(old.self, "_frequencies"), attr(a.self, "_frequencies")), same(attr(old.self, "_errors2"), attr(a.self, "_errors2")),
                   result is not a.self, attr(result, "_frequencies") is not attr(a.self, "_frequencies"),
                   *[x is not y for x in attr(result, "_binnings") for y in attr(a.self, "_binnings")],
                   *[same(attr(x, "_bins"), attr(y, "_bins")) for x, y in zip(attr(old.self, "_binnings"), attr(a.self, "_binnings"))],
                   *[same(attr(x, "_bins"), attr(y, "_bins")) for x, y in zip(attr(old.self, "_binnings"), attr(result, "_binnings"))])


# ---------------------------------------------------------------------------------------------- adaptive fill (C04, C03)

@contract(H1K + ".fill", props=["C04", "C03"], name=H1K + ".fill[adaptive, any bin count]")
class _fill_adaptive_u:
    """one value into an adaptive fixed-width histogram with ANY number (>= 1) of bins, ANY amount of growth: the grid is kept, the
    value lands in the reported bin, every old content stays on its interval (moved by the number of bins added on the left)"""
    probe = "quantifier-free"

    def configs():
        return [{"dtype": "int64", "wk": "default"}, {"dtype": "float64", "wk": "float"}]

    def inputs(b):
        binning = fixed_width(b, "B", count=None, adaptive=True)
        c = attr(binning, "_bin_count")
        b.assume(c >= 1)
        dtype = b.cfg.dtype
        freq, err2 = b.tarray("h.freq", (c,), dtype), b.tarray("h.err2", (c,), dtype)
        missed = b.array("h.missed", (3,), dtype)
        b.assume(forall(0, c, lambda i: And(freq[i] >= 0, err2[i] >= 0)))
        nonneg(b, missed)
        h = b.obj(H1, _binnings=[binning], _frequencies=freq, _errors2=err2, _missed=missed, _dtype=b.dtype(dtype),
                  _meta_data={"name": None, "axis_names": ("axis0",)}, keep_missed=True, _stats=statistics(b, "h.stats", valid=True))
        kw = dict(self=h, value=b.real("v"))
        if b.cfg.wk == "float":
            w = b.real("w")
            b.assume(w >= 0)
            kw["weight"] = w
        return kw

    @ensures("same_grid_the_value_lands_in_the_reported_bin_old_contents_stay_on_their_intervals")
    def _(a, old, result):
        if result is None:
            return False       # "in a gap": a fixed-width grid has no gaps, such a path must be infeasible
        ob, nb = attr(old.self, "_binnings")[0], attr(a.self, "_binnings")[0]
        w, s = attr(ob, "_bin_width"), attr(ob, "_shift")
        t0, t1, c0, c1 = attr(ob, "_times_min"), attr(nb, "_times_min"), attr(ob, "_bin_count"), attr(nb, "_bin_count")
        wt = old.weight if hasattr(old, "weight") else 1
        f0, f1, e0, e1 = Fq(old.self), Fq(a.self), Eq(old.self), Eq(a.self)
        shift = t0 - t1
        v = old.value
        edge = lambda k: (t1 + k) * w + s
        return And(attr(nb, "_bin_width") == w, attr(nb, "_shift") == s, shift >= 0, c1 >= c0 + shift,
                   count_of(a.self) == c1, shape_of(e1)[0] == c1,
                   result >= 0, result < c1, edge(result) <= v, v < edge(result + 1),
                   forall(0, c1, lambda j: And(
                       f1[j] == If(And(j >= shift, j < shift + c0), lambda: f0[j - shift], 0) + If(j == result, wt, 0),
                       e1[j] == If(And(j >= shift, j < shift + c0), lambda: e0[j - shift], 0) + If(j == result, wt * wt, 0))),
                   same(elems(attr(old.self, "_missed")), elems(attr(a.self, "_missed"))))

    @ensures("no_more_bins_than_needed")
    def _(a, old, result):
        if result is None:
            return False
        ob, nb = attr(old.self, "_binnings")[0], attr(a.self, "_binnings")[0]
        t0, t1, c0, c1 = attr(ob, "_times_min"), attr(nb, "_times_min"), attr(ob, "_bin_count"), attr(nb, "_bin_count")
        # growth happens on one side only and ends with the bin that holds the value
        return And(Or(t1 == t0, t1 + c1 == t0 + c0), Implies(t1 < t0, result == 0), Implies(t1 + c1 > t0 + c0, result == c1 - 1))


# ---------------------------------------------------------------------------------------------- 2-D fill (C03)

@contract(HNDK + ".fill", props=["C03", "C13"], name=HNDK + ".fill[2-D, any shape]")
class _fill2d_u:
    """one point into a 2-D histogram of ANY shape: the reported cell contains the point on both axes (last bins closed), exactly that
    cell gains the weight (squared error the squared weight), a point outside the bins or in a gap goes to `missed`"""
    probe = "quantifier-free"

    def configs():
        return [{"dtype": "int64", "wk": "default"}, {"dtype": "float64", "wk": "float"}]

    def inputs(b):
        n0, n1 = b.int("n0"), b.int("n1")
        b.assume(And(n0 >= 1, n1 >= 1))
        kw = dict(self=hist2d_t(b, "h", n0, n1, b.cfg.dtype), value=b.array("p", (2,)))
        if b.cfg.wk == "float":
            w = b.real("w")
            b.assume(w >= 0)
            kw["weight"] = w
        return kw

    def _in(bins, n, k, x):
        return And(bins[k, 0] <= x, Or(x < bins[k, 1], And(k == n - 1, x == bins[k, 1])))

    @ensures("the_reported_cell_contains_the_point_and_exactly_that_cell_gains_the_weight")
    def _(a, old, result):
        bs = [attr(bn, "_bins") for bn in attr(old.self, "_binnings")]
        F0, F1, E0, E1 = attr(old.self, "_frequencies"), attr(a.self, "_frequencies"), attr(old.self, "_errors2"), attr(a.self, "_errors2")
        n0, n1 = shape_of(F0)
        x, y = elems(old.value)
        w = old.weight if hasattr(old, "weight") else 1
        m0, m1 = elems(attr(old.self, "_missed")), elems(attr(a.self, "_missed"))
        if result is None:
            outside = lambda bins, n, v: forall(0, n, lambda k: Not(_fill2d_u._in(bins, n, k, v)))
            return And(Or(outside(bs[0], n0, x), outside(bs[1], n1, y)),
                       forall(0, n0, lambda p: forall(0, n1, lambda q: And(F1[p, q] == F0[p, q], E1[p, q] == E0[p, q]))), m1[0] == m0[0] + w)
        i, j = result
        return And(i >= 0, i < n0, j >= 0, j < n1, _fill2d_u._in(bs[0], n0, i, x), _fill2d_u._in(bs[1], n1, j, y),
                   forall(0, n0, lambda p: forall(0, n1, lambda q: And(F1[p, q] == F0[p, q] + If(And(p == i, q == j), w, 0),
                                                                      E1[p, q] == E0[p, q] + If(And(p == i, q == j), w * w, 0)))),
                   m1[0] == m0[0], shape_of(F1)[0] == n0, shape_of(F1)[1] == n1)

    @ensures("dtype_promoted_by_the_weight_and_consistent")
    def _(a, old, result):
        want = np.promote_types(attr(old.self, "_dtype"), np.float64 if hasattr(old, "weight") else np.int64)
        return And(attr(a.self, "_dtype") == want, dtype_of(attr(a.self, "_frequencies")) == want, dtype_of(attr(a.self, "_errors2")) == want)


@contract(H2 + ".T", props=["C09", "C12"], name=H2 + ".T[any shape]")
class _transpose_u:
    """h.T for ANY shape: bins, names and contents swapped consistently; T.T is the original; nothing shared with the source"""
    probe = "quantifier-free"

    def inputs(b):
        n0, n1 = b.int("n0"), b.int("n1")
        b.assume(And(n0 >= 1, n1 >= 1))
        return dict(self=hist2d_t(b, "h", n0, n1))

    def invoke(I, fn, a, cfg):
        if I is not None:
            t = I.getattr(a.self, "T")
            return (t, I.getattr(t, "T"))
        return (a.self.T, a.self.T.T)

    @ensures("bins_names_and_contents_are_swapped_and_twice_is_the_original")
    def _(a, old, result):
        t, tt = result
        F0, E0 = attr(old.self, "_frequencies"), attr(old.self, "_errors2")
        n0, n1 = shape_of(F0)
        Ft, Et, Ftt = attr(t, "_frequencies"), attr(t, "_errors2"), attr(tt, "_frequencies")
        b0 = [attr(bn, "_bins") for bn in attr(old.self, "_binnings")]
        bt = [attr(bn, "_bins") for bn in attr(t, "_binnings")]
        return And(typename(t) == "Histogram2D", shape_of(Ft)[0] == n1, shape_of(Ft)[1] == n0,
                   forall(0, n0, lambda i: forall(0, n1, lambda j: And(Ft[j, i] == F0[i, j], Et[j, i] == E0[i, j], Ftt[i, j] == F0[i, j]))),
                   same(bt[0], b0[1]), same(bt[1], b0[0]),
                   tuple(attr(t, "_meta_data")["axis_names"]) == ("yy", "xx"), tuple(attr(tt, "_meta_data")["axis_names"]) == ("xx", "yy"),
                   same(elems(attr(t, "_missed")), elems(attr(old.self, "_missed"))))

    @ensures("the_source_is_untouched_and_shares_no_binning_with_the_transposed_histogram")
    def _(a, old, result):
        t = result[0]
        return And(same(attr(old.self, "_frequencies"), attr(a.self, "_frequencies")), tuple(attr(a.self, "_meta_data")["axis_names"]) == ("xx", "yy"),
                   *[x is not y for x in attr(t, "_binnings") for y in attr(a.self, "_binnings")], t is not a.self)


# ---------------------------------------------------------------------------------------------- non-in-place arithmetic (C05, C06, C12)

def _untouched(old_h, h):
    return And(same(Fq(old_h), Fq(h)), same(Eq(old_h), Eq(h)), same(elems(attr(old_h, "_missed")), elems(attr(h, "_missed"))),
               attr(h, "_dtype") == attr(old_h, "_dtype"))


def _fresh(result, *operands):
    """the result is a new object that shares no binning object with an operand"""
    return And(*[result is not o for o in operands],
               *[bn is not obn for o in operands for bn in attr(result, "_binnings") for obn in attr(o, "_binnings")])


@contract(HB + ".__add__", props=["C05", "C12", "C14"], name=HB + ".__add__[same bins, any bin count]")
class _add_u:

    def configs():
        return [{"d1": "int64", "d2": "int64"}, {"d1": "int64", "d2": "float64"}, {"d1": "float64", "d2": "int64"}]

    def inputs(b):
        n = nbins(b)
        binning = static_binning_t(b, "B", n)
        other_binning = b.obj(STB, _consecutive=None, _bins=attr(binning, "_bins"), _numpy_bins=None, _includes_right_edge=True, _adaptive=False)
        return dict(self=hist1d_t(b, "h", n, b.cfg.d1, binning), other=hist1d_t(b, "o", n, b.cfg.d2, other_binning))

    @ensures("the_sum_bin_by_bin_in_a_new_histogram_both_operands_untouched")
    def _(a, old, result):
        n = count_of(old.self)
        f0, e0, g, ge, f1, e1 = Fq(old.self), Eq(old.self), Fq(old.other), Eq(old.other), Fq(result), Eq(result)
        want = np.promote_types(attr(old.self, "_dtype"), attr(old.other, "_dtype"))
        return And(count_of(result) == n, forall(0, n, lambda i: And(f1[i] == f0[i] + g[i], e1[i] == e0[i] + ge[i])),
                   attr(result, "_dtype") == want, dtype_of(f1) == want, dtype_of(e1) == want,
                   _untouched(old.self, a.self), _untouched(old.other, a.other), _fresh(result, a.self, a.other))

    @ensures("statistics_add_operands_keep_theirs")
    def _(a, old, result):
        s, o, r = attr(old.self, "_stats"), attr(old.other, "_stats"), attr(result, "_stats")
        return And(r.sum == s.sum + o.sum, r.sum2 == s.sum2 + o.sum2, r.weight == s.weight + o.weight,
                   r.min == fmin(s.min, o.min), r.max == fmax(s.max, o.max),
                   same(attr(old.self, "_stats"), attr(a.self, "_stats")), same(attr(old.other, "_stats"), attr(a.other, "_stats")),
                   attr(result, "_stats") is not attr(a.self, "_stats"))


@contract(HB + ".__mul__", props=["C06", "C12"], name=HB + ".__mul__[any bin count]")
class _mul_u:
    configs = staticmethod(_scal_cfgs)

    def inputs(b):
        c = scalar(b)
        b.assume(c >= 0)
        return dict(self=hist1d_t(b, "h", nbins(b), b.cfg.dtype), other=c)

    @ensures("every_content_times_c_in_a_new_histogram_the_operand_untouched")
    def _(a, old, result):
        n, c = count_of(old.self), old.other
        f0, e0, f1, e1 = Fq(old.self), Eq(old.self), Fq(result), Eq(result)
        return And(count_of(result) == n, forall(0, n, lambda i: And(f1[i] == f0[i] * c, e1[i] == e0[i] * c * c)),
                   _untouched(old.self, a.self), _fresh(result, a.self))


@contract(HB + ".__truediv__", props=["C06", "C12"], name=HB + ".__truediv__[any bin count]")
class _div_u:
    configs = staticmethod(_scal_cfgs)

    def inputs(b):
        c = scalar(b)
        b.assume(c > 0)
        return dict(self=hist1d_t(b, "h", nbins(b), b.cfg.dtype), other=c)

    @ensures("every_content_divided_by_c_in_a_new_float_histogram_the_operand_untouched")
    def _(a, old, result):
        n, c = count_of(old.self), old.other
        f0, e0, f1, e1 = Fq(old.self), Eq(old.self), Fq(result), Eq(result)
        return And(count_of(result) == n, forall(0, n, lambda i: And(close(f1[i] * c, f0[i]), close(e1[i] * c * c, e0[i]))),
                   attr(result, "_dtype") == np.dtype("float64"), _untouched(old.self, a.self), _fresh(result, a.self))


@contract(HB + ".normalize", props=["C06", "C12"], name=HB + ".normalize[new histogram, any bin count]")
class _normalize_new_u:
    def configs():
        return [{"dtype": "int64", "percent": False}, {"dtype": "float64", "percent": True}]

    def inputs(b):
        n = nbins(b)
        h = hist1d_t(b, "h", n, b.cfg.dtype)
        b.assume(total_t(Fq(h)) > 0)
        return dict(self=h, inplace=False, percent=b.cfg.percent)

    @ensures("proportions_kept_in_a_new_float_histogram_the_operand_untouched")
    def _(a, old, result):
        n = count_of(old.self)
        tot = total_t(Fq(old.self))
        scale = 100 if old.percent else 1
        f0, f1 = Fq(old.self), Fq(result)
        return And(count_of(result) == n, forall(0, n, lambda i: close(f1[i] * tot, f0[i] * scale)),
                   attr(result, "_dtype").kind == "f", _untouched(old.self, a.self), _fresh(result, a.self))


# ---------------------------------------------------------------------------------------------- validation of the array-defined binnings (C07)

def _rising_t(bins, n):
    """every bin has positive width and no bin starts before its predecessor ends (the rule of is_rising)"""
    return And(forall(0, n, lambda i: bins[i, 0] < bins[i, 1]), forall(0, n - 1, lambda i: bins[i, 1] <= bins[i + 1, 0]))


@contract("physt.binnings:StaticBinning.__init__", props=["C07"], name="physt.binnings:StaticBinning.__init__[any bin count]")
class _static_init_u:
    probe = "quantifier-free"

    def inputs(b):
        n = nbins(b)
        return dict(self=b.obj(STB), bins=b.tarray("e", (n, 2)))

    @ensures("accepted_bins_are_rising_and_stored_as_given")
    def _(a, old, result):
        n = shape_of(old.bins)[0]
        return And(_rising_t(old.bins, n), same(attr(a.self, "_bins"), old.bins), attr(a.self, "_includes_right_edge") is True,
                   attr(a.self, "_adaptive") is False)

    @raises(ValueError, "unsorted_overlapping_or_empty_width_bins_are_refused")
    def _(o):
        return Not(_rising_t(o.bins, shape_of(o.bins)[0]))


@contract("physt.binnings:NumpyBinning.__init__", props=["C07"], name="physt.binnings:NumpyBinning.__init__[any bin count]")
class _numpy_init_u:
    probe = "quantifier-free"

    def inputs(b):
        n = nbins(b)
        return dict(self=b.obj(NPB), numpy_bins=b.tarray("e", (n + 1,)))

    @ensures("accepted_edges_are_strictly_rising_and_stored_as_given")
    def _(a, old, result):
        m = shape_of(old.numpy_bins)[0]
        e = old.numpy_bins
        return And(forall(0, m - 1, lambda i: e[i] < e[i + 1]), same(attr(a.self, "_numpy_bins"), e))

    @raises(ValueError, "edges_that_are_not_strictly_rising_are_refused")
    def _(o):
        m = shape_of(o.numpy_bins)[0]
        e = o.numpy_bins
        return Not(forall(0, m - 1, lambda i: e[i] < e[i + 1]))


@contract("physt.binnings:BinningBase.bins", props=["C07"], name="binning representations agree[any bin count]")
class _representations_u:
    """StaticBinning / NumpyBinning with ANY number (>= 1) of bins: pair view, count, first / last edge and the consecutiveness
    answer describe the same bins; copy and as_static give equal, independent binnings"""
    probe = "quantifier-free"

    def configs():
        return [{"kind": "static"}, {"kind": "numpy"}]

    def inputs(b):
        n = nbins(b)
        b.assume(n >= 1)
        if b.cfg.kind == "static":
            return dict(self=static_binning_t(b, "B", n))
        e = b.tarray("B.edges", (n + 1,))
        b.assume(forall(0, n, lambda i: e[i] < e[i + 1]))
        return dict(self=b.obj(NPB, _consecutive=True, _bins=None, _numpy_bins=e, _includes_right_edge=True, _adaptive=False))

    def invoke(I, fn, a, cfg):
        g = (lambda n: I.getattr(a.self, n)) if I is not None else (lambda n: getattr(a.self, n))
        call = (lambda n, *x: I.call(I.getattr(a.self, n), list(x), {})) if I is not None else (lambda n, *x: getattr(a.self, n)(*x))
        return {"bins": g("bins"), "bin_count": g("bin_count"), "first_edge": g("first_edge"), "last_edge": g("last_edge"),
                "is_consecutive": call("is_consecutive"), "copy": call("copy"), "as_static": call("as_static")}

    def _pairs(o):
        """(left(i), right(i), n) of the binning as built by `inputs`"""
        if typename(o) == "StaticBinning":
            bins = attr(o, "_bins")
            return (lambda i: bins[i, 0]), (lambda i: bins[i, 1]), shape_of(bins)[0]
        e = attr(o, "_numpy_bins")
        return (lambda i: e[i]), (lambda i: e[i + 1]), shape_of(e)[0] - 1

    @ensures("pair_view_count_and_outer_edges_agree")
    def _(a, old, result):
        l, r, n = _representations_u._pairs(old.self)
        bins = result["bins"]
        tol = lambda x, y: absolute(x - y) <= 1e-8 + 1e-5 * absolute(y)
        cons = forall(0, n - 1, lambda i: tol(l(i + 1), r(i)))
        return And(shape_of(bins)[0] == n, shape_of(bins)[1] == 2, forall(0, n, lambda i: And(bins[i, 0] == l(i), bins[i, 1] == r(i))),
                   result["bin_count"] == n, result["first_edge"] == l(0), result["last_edge"] == r(n - 1),
                   Iff(result["is_consecutive"], cons) if typename(old.self) == "StaticBinning" else result["is_consecutive"] is True)

    @ensures("copy_and_static_twin_are_equal_and_independent")
    def _(a, old, result):
        l, r, n = _representations_u._pairs(old.self)
        c, s = result["copy"], result["as_static"]
        cl, cr, cn = _representations_u._pairs(c)
        sb = attr(s, "_bins")
        return And(c is not a.self, s is not a.self, typename(c) == typename(old.self), typename(s) == "StaticBinning",
                   cn == n, shape_of(sb)[0] == n,
                   forall(0, n, lambda i: And(cl(i) == l(i), cr(i) == r(i), sb[i, 0] == l(i), sb[i, 1] == r(i))),
                   attr(c, "_includes_right_edge") == attr(old.self, "_includes_right_edge"),
                   attr(s, "_includes_right_edge") == attr(old.self, "_includes_right_edge"))


# ---------------------------------------------------------------------------------------------- transformed 1-D histograms (C15, C03)

@contract("physt.special_histograms:TransformedHistogramMixin.fill", props=["C15", "C03"], name="radial / azimuthal fill[any bin count]")
class _special_fill_u:
    """one Cartesian point into a radial or azimuthal histogram with ANY number of bins: it is transformed exactly once and the bin
    of its true coordinate gains the weight"""
    probe = "quantifier-free"

    def configs():
        return [{"cls": "RadialHistogram", "d": 2}, {"cls": "RadialHistogram", "d": 3}, {"cls": "AzimuthalHistogram", "d": 2}]

    def inputs(b):
        n = nbins(b)
        b.assume(n >= 1)
        h = hist1d_t(b, "h", n, "int64")
        from pyvc.values import obj_dict
        o = b.obj("physt.special_histograms:" + b.cfg.cls, **{k: attr(h, k) for k in ("_binnings", "_frequencies", "_errors2", "_missed", "_dtype", "_meta_data", "keep_missed", "_stats")})
        return dict(self=o, value=b.array("p", (b.cfg.d,)))

    @ensures("the_bin_of_the_true_coordinate_gains_the_weight")
    def _(a, old, result):
        from .special import expected
        q = expected(a._cfg_cls, elems(old.value))[0]
        n = count_of(old.self)
        bins = attr(attr(old.self, "_binnings")[0], "_bins")
        f0, f1, e0, e1 = Fq(old.self), Fq(a.self), Eq(old.self), Eq(a.self)
        m0, m1 = elems(attr(old.self, "_missed")), elems(attr(a.self, "_missed"))
        if result is None:
            return And(exists_gap(bins, n, q), forall(0, n, lambda i: And(f1[i] == f0[i], e1[i] == e0[i])), isnan(m1[0]), isnan(m1[1]))
        return And(binof_sound(bins, n, q, result),
                   forall(0, n, lambda i: And(f1[i] == f0[i] + If(i == result, 1, 0), e1[i] == e0[i] + If(i == result, 1, 0))),
                   m1[0] == m0[0] + If(result == -1, 1, 0), m1[1] == m0[1] + If(result == n, 1, 0), same(elems(a.value), elems(old.value)))
