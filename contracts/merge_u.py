"""merge_bins(amount) of a 1-D histogram with ANY number of bins (C10, C12, C18).

The amount is a concrete number per configuration (1, 2, 3, 5), the bin count is a symbolic integer.  Everything on the way is
the repository's code interpreted in place: `merge_bins` -> `copy` -> the bin map `[(i, i // amount) for i in range(n)]` (a list
of symbolic length, pyvc.values.SymList) -> `BinningBase.apply_bin_map` (loop 0, cut at `_inv_bins`) -> `StaticBinning(...)`
-> `_change_binning` -> `_reshape_data` -> `_apply_bin_map` (loop 0, cut at `_inv_data`).

Invariants are stated over the functions' own locals (the view `v`; `v.k` iterations done, `v.n` = length of the bin map)."""
import z3
from pyvc.vc import contract, ensures, raises, loop_invariant
from pyvc.spec import *
from pyvc.spec import sumr_t
from pyvc import induct
from pyvc.values import term_of, raw, Sym, TArr, SymList
from .common import *
from .unbounded import hist1d_t, nbins, Fq, Eq, count_of, HB

APPLY = "physt.binnings:BinningBase.apply_bin_map"
DATA = "physt.histogram_base:HistogramBase._apply_bin_map"

_CFG = {"a": None}      # the amount of the configuration under verification (set by `inputs`; one task = one configuration)


def _amount():
    a = _CFG["a"]
    if a is None:
        raise AttributeError("the bin-map invariants are only meant for the merge_bins(amount) contract")
    return a


def _is_amount_map(bin_map, n, a):
    """bin_map is [(i, i // a) for i in range(n)]"""
    if not isinstance(bin_map, SymList):
        raise AttributeError("bin_map is not a list of symbolic length")

    def pair(i):
        p = bin_map.elem(term_of(raw(i), "int"))
        return And(len(p) == 2, p[0] == i, p[1] == i // a)
    return forall(0, n, pair)


def _run_end(j, a, k):
    """exclusive end of the part of run j (old bins j*a .. j*a + a - 1) that lies below k"""
    return fmin(k, (j + 1) * a)


@loop_invariant(APPLY, 0, havoc={"bins": "array"})
def _inv_bins(v):
    a, k, n = _amount(), v.k, v.n
    B, bins, L = attr(v.self, "_bins"), v.bins, v.length
    return And(_is_amount_map(v.bin_map, n, a), shape_of(bins)[0] == L, shape_of(B)[0] == n,
               # every new bin whose run has been started spans from the run's first left edge to the right edge of the last old
               # bin seen; the others are still the NaN markers
               forall(0, L, lambda j: If((j * a < k),
                                         lambda: And(Not(bins.nan_at(j, 0)), Not(bins.nan_at(j, 1)), bins[j, 0] == B[j * a, 0],
                                                     bins[j, 1] == B[_run_end(j, a, k) - 1, 1]),
                                         lambda: And(bins.nan_at(j, 0), bins.nan_at(j, 1)))),
               # no gap inside a run so far
               forall(1, k, lambda i: Implies(i % a != 0, B[i - 1, 1] == B[i, 0])))


@loop_invariant(DATA, 0, havoc={"new_frequencies": "array", "new_errors2": "array"})
def _inv_data(v):
    a, k, n = _amount(), v.k, v.n
    f0, e0, f1, e1 = v.old_frequencies, v.old_errors2, v.new_frequencies, v.new_errors2
    L = shape_of(f1)[0]
    def part(x0, j):
        """the sum of the part of run j that lies below k (cases instead of a minimum in the bound: the step then needs one
        unfolding of the sum, for the run that old bin k belongs to, and nothing for the others)"""
        return If(k >= (j + 1) * a, lambda: sumr_t(x0, j * a, (j + 1) * a), lambda: If(k > j * a, lambda: sumr_t(x0, j * a, k), 0))
    return And(_is_amount_map(v.bin_map, n, a), shape_of(e1)[0] == L, shape_of(f0)[0] == n, shape_of(e0)[0] == n, n >= 1,
               L == (n - 1) // a + 1,
               forall(0, L, lambda j: And(f1[j] == part(f0, j), e1[j] == part(e0, j))))


def block_sum_lemma(kind, a):
    """Bn[j] = sumr(A, j*a, min(n, (j+1)*a)) for j < L:  sumr(Bn, 0, m) = sumr(A, 0, min(n, m*a))  for m <= L
    (the sum of the merged contents is the sum of the old contents)"""
    from pyvc.tarr import sum_fn
    from pyvc.induct import _wsort, Lemma, _min
    s, A = _wsort(kind)
    f = sum_fn(kind)
    split = induct.sum_split_lemma(kind)
    params = [("A", A), ("Bn", A), ("n", z3.IntSort()), ("L", z3.IntSort())]

    def hyps(A_, Bn, n, L):
        j = z3.Int("%bs_j")
        return z3.And(n >= 0, L >= 0,
                      z3.ForAll([j], z3.Implies(z3.And(j >= 0, j < L), z3.Select(Bn, j) == f(A_, j * a, _min(n, (j + 1) * a)))))

    def stmt(A_, Bn, n, L, m):
        return f(Bn, z3.IntVal(0), m) == f(A_, z3.IntVal(0), _min(n, m * a))

    def uses(A_, Bn, n, L, m):
        return [split.instance(A_, z3.IntVal(0), _min(n, m * a), _min(n, (m + 1) * a))]
    return Lemma(f"block_sum_{kind}_{a}", params, hyps, stmt, lambda A_, Bn, n, L: L, uses=uses)


def _gap_inside_a_run(h, a):
    """some run of `a` adjacent bins has a gap inside (between two of its bins)"""
    B = attr(attr(h, "_binnings")[0], "_bins")
    n = shape_of(B)[0]
    return Not(forall(1, n, lambda i: Implies(i % a != 0, B[i - 1, 1] == B[i, 0])))


@contract(HB + ".merge_bins", props=["C10", "C12", "C18"], name=HB + ".merge_bins[amount, 1-D, any bin count]")
class _merge_u:
    """h.merge_bins(amount) for a 1-D histogram over ANY number (>= 1) of rising bins, gaps allowed: the new bins are the runs of
    `amount` adjacent old bins (the last run may be shorter), from the run's first left edge to its last right edge, with the
    run's summed content and squared error; totals and missed counts are conserved, the source is untouched and shares nothing
    with the result (in place: the histogram itself is re-binned); a gap inside a run or a non-integral amount is refused and
    nothing changes"""
    probe = "quantifier-free"
    mbqi_first = True

    def lemmas_():
        out = [induct.sum_split_lemma("int")]
        for a in (1, 2, 3, 5):
            out.append(block_sum_lemma("int", a))
        return out
    lemmas = lemmas_()

    def configs():
        return [{"amount": a, "axis": ax} for a, ax in ((1, 0), (2, None), (2, 0), (3, None), (5, 0))] + \
               [{"amount": 2, "axis": 0, "inplace": True}, {"amount": 2.5, "axis": 0}, {"amount": 2.5, "axis": None, "inplace": True}]

    def inputs(b):
        _CFG["a"] = b.cfg.amount
        n = nbins(b)
        b.assume(n >= 1)
        return dict(self=hist1d_t(b, "h", n, "int64"), amount=b.cfg.amount, axis=b.cfg.axis, inplace=getattr(b.cfg, "inplace", False))

    def invoke(I, fn, a, cfg):
        if I is not None:
            return I.call(fn, [a.self, a.amount], {"axis": a.axis, "inplace": a.inplace})
        return fn(a.self, a.amount, axis=a.axis, inplace=a.inplace)

    def using(a, old, result):
        am = old.amount
        t = lambda x: term_of(raw(x), "int")
        f0, f1, e0, e1 = Fq(old.self).term, Fq(result).term, Eq(old.self).term, Eq(result).term
        n, L = t(count_of(old.self)), t(count_of(result))
        lem = block_sum_lemma("int", am)
        return [(lem, (f0, f1, n, L)), (lem, (e0, e1, n, L))]

    @ensures("the_new_bins_are_the_runs_of_adjacent_old_bins")
    def _(a, old, result):
        am, n = old.amount, count_of(old.self)
        b0, b1 = attr(attr(old.self, "_binnings")[0], "_bins"), attr(attr(result, "_binnings")[0], "_bins")
        L = shape_of(b1)[0]
        return And(typename(result) == "Histogram1D", typename(attr(result, "_binnings")[0]) == "StaticBinning",
                   L == (n - 1) // am + 1, count_of(result) == L, shape_of(Eq(result))[0] == L,
                   forall(0, L, lambda j: And(b1[j, 0] == b0[j * am, 0], b1[j, 1] == b0[fmin(n, (j + 1) * am) - 1, 1])))

    @ensures("every_new_bin_holds_the_sums_of_its_run")
    def _(a, old, result):
        am, n = old.amount, count_of(old.self)
        f0, f1, e0, e1 = Fq(old.self), Fq(result), Eq(old.self), Eq(result)
        return And(forall(0, count_of(result), lambda j: And(f1[j] == sumr_t(f0, j * am, fmin(n, (j + 1) * am)),
                                                              e1[j] == sumr_t(e0, j * am, fmin(n, (j + 1) * am)))),
                   attr(result, "_dtype") == attr(old.self, "_dtype"))

    @ensures("totals_and_missed_counts_are_conserved")
    def _(a, old, result):
        return And(total_t(Fq(result)) == total_t(Fq(old.self)), total_t(Eq(result)) == total_t(Eq(old.self)),
                   same(elems(attr(old.self, "_missed")), elems(attr(result, "_missed"))))

    @ensures("the_source_is_untouched_and_shares_nothing")
    def _(a, old, result):
        if old.inplace:
            return result is a.self      # in place: the histogram itself is the result (the clauses above describe it)
        return And(same(Fq(old.self), Fq(a.self)), same(Eq(old.self), Eq(a.self)), same(elems(attr(old.self, "_missed")), elems(attr(a.self, "_missed"))),
                   same(attr(attr(old.self, "_binnings")[0], "_bins"), attr(attr(a.self, "_binnings")[0], "_bins")), result is not a.self,
                   attr(result, "_binnings")[0] is not attr(a.self, "_binnings")[0],
                   Fq(result) is not Fq(a.self), Eq(result) is not Eq(a.self),
                   not shares_memory(Fq(result), Fq(a.self)), not shares_memory(Eq(result), Eq(a.self)),
                   not shares_memory(attr(result, "_missed"), attr(a.self, "_missed")))

    @raises(ValueError, "a gap inside a run of merged bins is refused",
            state=lambda a, old: And(same(Fq(old.self), Fq(a.self)), same(Eq(old.self), Eq(a.self)),
                                     same(elems(attr(old.self, "_missed")), elems(attr(a.self, "_missed"))),
                                     same(attr(attr(old.self, "_binnings")[0], "_bins"), attr(attr(a.self, "_binnings")[0], "_bins"))))
    def _(old):
        if old.amount != int(old.amount):
            return True                  # a non-integral amount is refused
        return _gap_inside_a_run(old.self, old.amount)
