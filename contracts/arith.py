"""C05 / C06 / C12 / C13 / C14 / C18 / C19: histogram arithmetic (bounded: bin counts fixed, contents symbolic)."""
import numpy as np
from pyvc.vc import contract, ensures, raises
from pyvc.spec import *
from .common import *
from .fill import dtype_consistent

HB = "physt.histogram_base:HistogramBase"


def mk_hist(b, name, dim, m, kind, dtype, binname="B", **kw):
    if dim == 1:
        return hist1d(b, name, make_binning(b, binname, kind, m), m, dtype=dtype, **kw)
    shape = (1, m)
    binnings = [make_binning(b, f"{binname}{i}", kind, s) for i, s in enumerate(shape)]
    kw.pop("stats", None)
    return histnd(b, name, binnings, shape, dtype=dtype, **kw)


def F(h): return elems(attr(h, "_frequencies"))
def E(h): return elems(attr(h, "_errors2"))
def M(h): return elems(attr(h, "_missed"))


def promoted(h0, o0):
    return np.promote_types(attr(h0, "_dtype"), attr(o0, "_dtype"))


def far_apart(bs0, bs1):
    """some pair of corresponding edges differs by more than np.allclose's tolerance (in both directions)"""
    cs = []
    for (l0, r0), (l1, r1) in zip(bs0, bs1):
        for x, y in ((l0, l1), (r0, r1)):
            cs.append(And(absolute(x - y) > 1e-8 + 1e-5 * absolute(y), absolute(x - y) > 1e-8 + 1e-5 * absolute(x)))
    return Or(*cs)


def _iadd_cfgs():
    out = []
    for dim in (1, 2):
        for m in (1, 2):
            for d1, d2 in (("int64", "int64"), ("int64", "float64"), ("float64", "int64")):
                out.append({"dim": dim, "m": m, "bins": "gapped" if m == 2 else "fixed", "d1": d1, "d2": d2})
    out.append({"dim": 1, "m": 2, "bins": "numpy", "d1": "int32", "d2": "int64"})
    # the same bins described in two ways (a fixed-width grid and the array of its edges): still "the same bins"
    out.append({"dim": 1, "m": 2, "bins": "fixed", "d1": "int64", "d2": "int64", "other_as": "numpy"})
    out.append({"dim": 1, "m": 2, "bins": "fixed", "d1": "int64", "d2": "float64", "other_as": "static"})
    return out


@contract(HB + ".__iadd__", props=["C05", "C13", "C14", "C18"], name=HB + ".__iadd__[same bins]")
class _iadd_same:
    bounded = True
    bound_note = "arithmetic: 1D with m<=2 bins, 2D with shape (1,m); contents symbolic"
    configs = staticmethod(_iadd_cfgs)

    def thorough_extra():
        return [{"dim": 1, "m": 4, "bins": "gapped", "d1": "int64", "d2": "float64"}, {"dim": 2, "m": 3, "bins": "fixed", "d1": "float64", "d2": "int64"}]

    def inputs(b):
        c = b.cfg
        me = mk_hist(b, "h", c.dim, c.m, c.bins, c.d1)
        if getattr(c, "other_as", None):
            v = bins_of(attr(me, "_binnings")[0])
            if c.other_as == "numpy":
                bn = b.obj(NPB, _consecutive=True, _bins=None, _numpy_bins=b.carray([v[0][0]] + [r for _, r in v], "float64"),
                           _includes_right_edge=False, _adaptive=False)
            else:
                bn = b.obj(STB, _consecutive=None, _bins=b.carray([[l, r] for l, r in v], "float64"), _numpy_bins=None,
                           _includes_right_edge=False, _adaptive=False)
            return dict(self=me, other=hist1d(b, "o", bn, c.m, dtype=c.d2))
        return dict(self=me, other=mk_hist(b, "o", c.dim, c.m, c.bins, c.d2))

    @ensures("contents_errors_missed_add")
    def _(a, old, result):
        f = [x + y for x, y in zip(F(old.self), F(old.other))]
        e = [x + y for x, y in zip(E(old.self), E(old.other))]
        m = [x + y for x, y in zip(M(old.self), M(old.other))]
        return And(result is a.self, same(F(a.self), f), same(E(a.self), e), same(M(a.self), m))

    @ensures("statistics_add")
    def _(a, old, result):
        if not has(old.self, "_stats"):
            return True
        s, o, r = attr(old.self, "_stats"), attr(old.other, "_stats"), attr(a.self, "_stats")
        return And(r.sum == s.sum + o.sum, r.sum2 == s.sum2 + o.sum2, r.weight == s.weight + o.weight,
                   r.min == fmin(s.min, o.min), r.max == fmax(s.max, o.max))

    @ensures("dtype_is_the_promotion")
    def _(a, old, result):
        return And(dtype_consistent(a.self), attr(a.self, "_dtype") == promoted(old.self, old.other))

    @ensures("other_operand_and_bins_unchanged")
    def _(a, old, result):
        return And(same_hist(old.other, a.other), *[same_binning(x, y) for x, y in zip(attr(old.self, "_binnings"), attr(a.self, "_binnings"))])


@contract(HB + ".__add__", props=["C05", "C12"], name=HB + ".__add__[same bins]")
class _add_same:
    bounded = True
    bound_note = "arithmetic: 1D with m<=2 bins, 2D with shape (1,m); contents symbolic"

    def configs():
        return [{"dim": 1, "m": 2, "bins": "gapped", "d1": "int64", "d2": "float64"},
                {"dim": 1, "m": 1, "bins": "fixed", "d1": "int64", "d2": "int64"},
                {"dim": 2, "m": 2, "bins": "numpy", "d1": "float64", "d2": "int64"}]

    def inputs(b):
        c = b.cfg
        return dict(self=mk_hist(b, "h", c.dim, c.m, c.bins, c.d1), other=mk_hist(b, "o", c.dim, c.m, c.bins, c.d2))

    @ensures("sum_of_contents")
    def _(a, old, result):
        return And(same(F(result), [x + y for x, y in zip(F(old.self), F(old.other))]),
                   same(E(result), [x + y for x, y in zip(E(old.self), E(old.other))]),
                   same(M(result), [x + y for x, y in zip(M(old.self), M(old.other))]))

    @ensures("commutative")
    def _(a, old, result):
        return same([x + y for x, y in zip(F(old.self), F(old.other))], [y + x for x, y in zip(F(old.self), F(old.other))])

    @ensures("operands_unchanged")
    def _(a, old, result):
        return And(same_hist(old.self, a.self), same_hist(old.other, a.other))

    @ensures("result_is_independent")
    def _(a, old, result):
        return And(result is not a.self, result is not a.other, independent(result, a.self), independent(result, a.other))


def independent(x, y):
    """no writable storage shared: arrays, binning objects, metadata dict, statistics"""
    cs = []
    for f in ("_frequencies", "_errors2", "_missed"):
        cs.append(not shares_memory(attr(x, f), attr(y, f)))
    cs.append(attr(x, "_meta_data") is not attr(y, "_meta_data"))
    for bx in attr(x, "_binnings"):
        for by in attr(y, "_binnings"):
            cs.append(bx is not by)
    cs.append(attr(x, "_binnings") is not attr(y, "_binnings"))
    return And(*cs)


@contract(HB + ".__iadd__", props=["C05", "C18"], name=HB + ".__iadd__[refusals]")
class _iadd_refuse:
    bounded = True
    bound_note = "arithmetic: 1D with m<=2 bins, 2D with shape (1,m); contents symbolic"

    def configs():
        return [{"case": "different_bins", "m": 2}, {"case": "different_dim", "m": 1}, {"case": "scalar", "m": 1},
                {"case": "array", "m": 2}, {"case": "different_count", "m": 2}]

    def inputs(b):
        c = b.cfg
        me = mk_hist(b, "h", 1, c.m, "gapped", "int64")
        if c.case == "different_bins":
            other = mk_hist(b, "o", 1, c.m, "gapped", "int64", binname="B2")
            b.assume(far_apart(bins_of(attr(me, "_binnings")[0]), bins_of(attr(other, "_binnings")[0])))
        elif c.case == "different_count":
            other = mk_hist(b, "o", 1, c.m + 1, "gapped", "int64", binname="B2")
        elif c.case == "different_dim":
            other = mk_hist(b, "o", 2, c.m, "gapped", "int64", binname="B2")
        elif c.case == "scalar":
            other = b.real("x")
        else:
            other = b.array("x", (c.m,))
        return dict(self=me, other=other)

    @raises(ValueError, "incompatible_histograms_are_refused", state=lambda a, old: same_hist(old.self, a.self))
    def _(o):
        return is_obj(o.other)

    @raises(TypeError, "non_histograms_are_refused_without_free_arithmetics", state=lambda a, old: same_hist(old.self, a.self))
    def _(o):
        return not is_obj(o.other)


# ---------------------------------------------------------------------------------------------- scaling

def _scal_cfgs():
    out = []
    for dim in (1, 2):
        for dtype in ("int64", "float64"):
            for ck in ("int", "float", "npfloat"):
                out.append({"dim": dim, "m": 2, "dtype": dtype, "ck": ck})
    out.append({"dim": 1, "m": 2, "dtype": "int16", "ck": "int"})        # a narrow integer histogram times a Python int widens (it must not wrap)
    out.append({"dim": 1, "m": 2, "dtype": "float32", "ck": "float"})
    return out


def scalar_of(b):
    ck = b.cfg.ck
    c = b.int("c") if ck == "int" else b.real("c", np=(ck == "npfloat"))
    return c


def _mul_clauses(prefix, factor_of, inplace):
    pass


@contract(HB + ".__imul__", props=["C06", "C13", "C14", "C18"])
class _imul:
    bounded = True
    bound_note = "arithmetic: 1D with m<=2 bins, 2D with shape (1,m); contents symbolic"
    configs = staticmethod(_scal_cfgs)

    def inputs(b):
        c = b.cfg
        k = scalar_of(b)
        b.assume(k >= 0)        # negative factors: see the refusal contract
        return dict(self=mk_hist(b, "h", c.dim, c.m, "gapped", c.dtype), other=k)

    @ensures("contents_scale_linearly_errors_quadratically")
    def _(a, old, result):
        c = old.other
        return And(result is a.self, same(F(a.self), [x * c for x in F(old.self)]), same(E(a.self), [x * c * c for x in E(old.self)]),
                   same(M(a.self), [x * c for x in M(old.self)]))

    @ensures("statistics_rescaled")
    def _(a, old, result):
        if not has(old.self, "_stats"):
            return True
        s, r, c = attr(old.self, "_stats"), attr(a.self, "_stats"), old.other
        return And(r.weight == s.weight * c, r.sum * s.weight == s.sum * r.weight, r.min == s.min, r.max == s.max,
                   Implies(And(c > 0, s.weight > 0), (r.sum2 * r.weight - r.sum * r.sum) * s.weight * s.weight
                           == (s.sum2 * s.weight - s.sum * s.sum) * r.weight * r.weight))

    @ensures("dtype_promoted_not_truncated")
    def _(a, old, result):
        want = np.promote_types(attr(old.self, "_dtype"), np.float64 if typename(old.other) in ("float", "float64") else np.int64)
        return And(dtype_consistent(a.self), attr(a.self, "_dtype") == want)

    @ensures("bins_untouched")
    def _(a, old, result):
        return And(*[same_binning(x, y) for x, y in zip(attr(old.self, "_binnings"), attr(a.self, "_binnings"))])


@contract(HB + ".__mul__", props=["C06", "C12"])
class _mul:
    bounded = True
    bound_note = "arithmetic: 1D with m<=2 bins, 2D with shape (1,m); contents symbolic"

    def configs():
        return [{"dim": 1, "m": 2, "dtype": "int64", "ck": "float"}, {"dim": 2, "m": 2, "dtype": "float64", "ck": "int"}]

    def inputs(b):
        c = b.cfg
        k = scalar_of(b)
        b.assume(k >= 0)
        return dict(self=mk_hist(b, "h", c.dim, c.m, "gapped", c.dtype), other=k)

    @ensures("scaled_copy")
    def _(a, old, result):
        c = old.other
        return And(same(F(result), [x * c for x in F(old.self)]), same(E(result), [x * c * c for x in E(old.self)]),
                   same(M(result), [x * c for x in M(old.self)]))

    @ensures("operand_unchanged_result_independent")
    def _(a, old, result):
        return And(same_hist(old.self, a.self), result is not a.self, independent(result, a.self))


@contract(HB + ".__rmul__", props=["C06"])
class _rmul:
    bounded = True
    bound_note = "arithmetic: 1D with m<=2 bins, 2D with shape (1,m); contents symbolic"

    def configs():
        return [{"dim": 1, "m": 2, "dtype": "int64", "ck": "float"}]

    def inputs(b):
        c = b.cfg
        k = scalar_of(b)
        b.assume(k >= 0)
        return dict(self=mk_hist(b, "h", c.dim, c.m, "gapped", c.dtype), other=k)

    @ensures("c_times_h_equals_h_times_c")
    def _(a, old, result):
        c = old.other
        return And(same(F(result), [x * c for x in F(old.self)]), same(E(result), [x * c * c for x in E(old.self)]),
                   same_hist(old.self, a.self))


@contract(HB + ".__itruediv__", props=["C06", "C13", "C14", "C18"])
class _idiv:
    bounded = True
    bound_note = "arithmetic: 1D with m<=2 bins, 2D with shape (1,m); contents symbolic"
    configs = staticmethod(_scal_cfgs)

    def inputs(b):
        c = b.cfg
        k = scalar_of(b)
        b.assume(k > 0)
        return dict(self=mk_hist(b, "h", c.dim, c.m, "gapped", c.dtype), other=k)

    @ensures("contents_divide_linearly_errors_quadratically")
    def _(a, old, result):
        c = old.other
        return And(result is a.self, *[close(x1 * c, x0) for x0, x1 in zip(F(old.self), F(a.self))],
                   *[close(x1 * c * c, x0) for x0, x1 in zip(E(old.self), E(a.self))],
                   *[close(x1 * c, x0) for x0, x1 in zip(M(old.self), M(a.self))])

    @ensures("statistics_rescaled")
    def _(a, old, result):
        if not has(old.self, "_stats"):
            return True
        s, r, c = attr(old.self, "_stats"), attr(a.self, "_stats"), old.other
        return And(close(r.weight * c, s.weight), close(r.sum * s.weight, s.sum * r.weight), r.min == s.min, r.max == s.max,
                   Implies(s.weight > 0, close((r.sum2 * r.weight - r.sum * r.sum) * s.weight * s.weight,
                                               (s.sum2 * s.weight - s.sum * s.sum) * r.weight * r.weight)))

    @ensures("float_dtype")
    def _(a, old, result):
        return And(dtype_consistent(a.self), attr(a.self, "_dtype") == np.dtype("float64"))


@contract(HB + ".__truediv__", props=["C06", "C12"])
class _div:
    bounded = True
    bound_note = "arithmetic: 1D with m<=2 bins, 2D with shape (1,m); contents symbolic"

    def configs():
        return [{"dim": 1, "m": 2, "dtype": "int64", "ck": "int"}, {"dim": 2, "m": 2, "dtype": "float64", "ck": "float"}]

    def inputs(b):
        c = b.cfg
        k = scalar_of(b)
        b.assume(k > 0)
        return dict(self=mk_hist(b, "h", c.dim, c.m, "gapped", c.dtype), other=k)

    @ensures("divided_copy")
    def _(a, old, result):
        c = old.other
        return And(*[close(x1 * c, x0) for x0, x1 in zip(F(old.self), F(result))], *[close(x1 * c * c, x0) for x0, x1 in zip(E(old.self), E(result))])

    @ensures("operand_unchanged_result_independent")
    def _(a, old, result):
        return And(same_hist(old.self, a.self), result is not a.self, independent(result, a.self))


@contract(HB + ".__imul__", props=["C06", "C18", "C19"], name=HB + ".__imul__[refusals]")
class _imul_refuse:
    bounded = True
    bound_note = "arithmetic: 1D with m<=2 bins, 2D with shape (1,m); contents symbolic"

    def configs():
        return [{"case": c, "op": op} for c in ("histogram", "array", "negative") for op in ("mul", "div")]

    def inputs(b):
        c = b.cfg
        me = mk_hist(b, "h", 1, 2, "gapped", "float64")
        if c.case == "histogram":
            other = mk_hist(b, "o", 1, 2, "gapped", "float64")
        elif c.case == "array":
            other = b.array("x", (2,))
        else:
            other = b.real("c")
            b.assume(other < 0)
            b.assume(Or(*[x > 0 for x in F(me)]))
        return dict(self=me, other=other)

    def invoke(I, fn, a, cfg):
        name = "__imul__" if cfg.op == "mul" else "__itruediv__"
        if I is not None:
            return I.call(I.find(HB + "." + name), [a.self, a.other], {})
        return getattr(type(a.self), name)(a.self, a.other)

    @raises(TypeError, "histogram_and_array_operands_refused", state=lambda a, old: same_hist(old.self, a.self))
    def _(o):
        return isarray(o.other) or is_obj(o.other)

    @raises(ValueError, "negative_factor_refused", state=lambda a, old: same_hist(old.self, a.self))
    def _(o):
        return not (isarray(o.other) or is_obj(o.other))
