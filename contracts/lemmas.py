"""Property-level statements checked end to end through several calls of the real public API (bounded):
C03 (any way of entering a data set gives the same histogram), C05 (commutativity / associativity / sum over partitions),
C06 ((h*c)/c, c*h == h*c), C09 (stepwise projection == direct projection), C07 (pretty widths)."""
import numpy as np
from pyvc.vc import contract, ensures, raises
from pyvc.spec import *
from .common import *
from .arith import F, E, M, mk_hist
from .nd import nd_binnings

BOUND = "histories: data sets of 2 values, 2 bins; contents / edges / weights symbolic; the listed entry orders and chunkings"
H1K = "physt.histogram1d:Histogram1D"


def _call(I, fn_or_key, args, kwargs=None):
    return I.call(fn_or_key, list(args), kwargs or {})


@contract("physt.histogram1d:Histogram1D.fill_n", props=["C03", "C14"], name="entering data: construction == fill == fill_n (any chunking, any order)")
class _histories:
    bounded = True
    bound_note = BOUND

    def configs():
        return [{"bins": k, "weights": w} for k in ("static", "gapped") for w in (None, "float64")]

    def inputs(b):
        c = b.cfg
        binning = make_binning(b, "B", c.bins, 2)
        kw = dict(binning=binning, data=b.array("d", (2,)))
        if c.weights:
            kw["weights"] = b.array("w", (2,), c.weights)
            nonneg(b, kw["weights"])
        return kw

    def invoke(I, fn, a, cfg):
        d = a.data
        w = getattr(a, "weights", None)
        dtype = "float64" if w is not None else "int64"
        if I is not None:
            np_ = I.np
            h1 = I.find("physt._facade:h1")
            H = I.find_class(H1K)
            sub = lambda arr, idx: np_.getitem(arr, idx)
            A = I.call(h1, [d, a.binning], {"weights": w} if w is not None else {})
            Bh = I.call(H, [I.call(I.getattr(a.binning, "copy"), [], {})], {"dtype": np.dtype(dtype)})
            for i in (1, 0):         # one at a time, permuted
                I.call(I.getattr(Bh, "fill"), [sub(d, i)] + ([sub(w, i)] if w is not None else []), {})
            Ch = I.call(H, [I.call(I.getattr(a.binning, "copy"), [], {})], {"dtype": np.dtype(dtype)})
            I.call(I.getattr(Ch, "fill_n"), [sub(d, slice(0, 1))], {"weights": sub(w, slice(0, 1))} if w is not None else {})
            I.call(I.getattr(Ch, "fill_n"), [sub(d, slice(1, 1))], {"weights": sub(w, slice(1, 1))} if w is not None else {})     # empty batch
            I.call(I.getattr(Ch, "fill_n"), [sub(d, slice(1, 2))], {"weights": sub(w, slice(1, 2))} if w is not None else {})
            return (A, Bh, Ch)
        import physt
        from physt.types import Histogram1D
        A = physt.h1(d, a.binning, **({"weights": w} if w is not None else {}))
        Bh = Histogram1D(a.binning.copy(), dtype=dtype)
        for i in (1, 0):
            Bh.fill(d[i], *( [w[i]] if w is not None else []))
        Ch = Histogram1D(a.binning.copy(), dtype=dtype)
        Ch.fill_n(d[0:1], **({"weights": w[0:1]} if w is not None else {}))
        Ch.fill_n(d[1:1], **({"weights": w[1:1]} if w is not None else {}))
        Ch.fill_n(d[1:2], **({"weights": w[1:2]} if w is not None else {}))
        return (A, Bh, Ch)

    @ensures("identical_contents_errors_and_missed_values")
    def _(a, old, result):
        A, B, C = result
        bins = bins_of(old.binning)
        exact = And(*[bins[k][1] == bins[k + 1][0] for k in range(len(bins) - 1)])
        cs = [same(F(A), F(B)), same(F(A), F(C)), same(E(A), E(B)), same(E(A), E(C))]
        # under/overflow agree whenever they are defined (exactly consecutive bins); for gapped bins construction and fill_n
        # report them as unknown
        cs.append(Implies(exact, And(same(M(A)[:2], M(B)[:2]), same(M(A)[:2], M(C)[:2]))))
        return And(*cs)

    @ensures("identical_statistics_for_in_range_data")
    def _(a, old, result):
        A, B, C = result
        bins = bins_of(old.binning)
        inside = And(*[Or(*[inbin(bins, k, x) for k in range(len(bins))]) for x in elems(old.data)])
        sa, sb, sc = (attr(h, "_stats") for h in (A, B, C))
        return Implies(inside, And(sa.sum == sb.sum, sa.sum == sc.sum, sa.sum2 == sb.sum2, sa.sum2 == sc.sum2, sa.weight == sb.weight,
                                   sa.weight == sc.weight, sa.min == sb.min, sa.max == sc.max))

    known = {"identical_contents_errors_and_missed_values": [("F19b", lambda o: micro(bins_of(o.binning)))]}


def micro(bins, rtol=1e-5, atol=1e-8):
    cs = []
    for k in range(len(bins) - 1):
        r, l = bins[k][1], bins[k + 1][0]
        cs.append(And(r != l, absolute(l - r) <= atol + rtol * absolute(r)))
    return Or(*cs) if cs else False


HB = "physt.histogram_base:HistogramBase"


@contract(HB + ".__add__", props=["C05", "C14"], name="addition: commutative, associative, sum over any partition")
class _add_algebra:
    bounded = True
    bound_note = "algebra: three histograms with 2 bins over the same binning (1D with statistics, 2D); contents symbolic"

    def configs():
        return [{"dim": 1, "dtypes": ("int64", "int64", "float64")}, {"dim": 2, "dtypes": ("int64", "int64", "int64")}]

    def inputs(b):
        c = b.cfg
        hs = [mk_hist(b, f"h{i}", c.dim, 2, "static", dt) for i, dt in enumerate(c.dtypes)]
        return dict(a=hs[0], b=hs[1], c=hs[2])

    def invoke(I, fn, x, cfg):
        if I is not None:
            add = lambda p, q: I.binop("+", p, q)
            total = I.call(I.builtins["sum"], [[x.c, x.a, x.b]], {})
        else:
            add = lambda p, q: p + q
            total = sum([x.c, x.a, x.b])
        return (add(x.a, x.b), add(x.b, x.a), add(add(x.a, x.b), x.c), add(x.a, add(x.b, x.c)), total)

    @ensures("same_histogram_whatever_the_order_or_grouping")
    def _(a, old, result):
        ab, ba, ab_c, a_bc, tot = result
        fa, fb, fc = F(old.a), F(old.b), F(old.c)
        want2 = [x + y for x, y in zip(fa, fb)]
        want3 = [x + y + z for x, y, z in zip(fa, fb, fc)]
        cs = [same(F(ab), want2), same(F(ba), want2), same(E(ab), E(ba)), same(M(ab), M(ba)),
              same(F(ab_c), want3), same(F(a_bc), want3), same(F(tot), want3), same(E(ab_c), E(a_bc)), same(E(tot), E(ab_c)),
              same(M(ab_c), M(a_bc)), same(M(tot), M(ab_c)),
              attr(ab, "_dtype") == attr(ba, "_dtype"), attr(ab_c, "_dtype") == attr(a_bc, "_dtype"),
              same_hist(old.a, a.a), same_hist(old.b, a.b), same_hist(old.c, a.c)]
        if has(old.a, "_stats"):
            s1, s2, s3 = attr(ab_c, "_stats"), attr(a_bc, "_stats"), attr(tot, "_stats")
            cs += [s1.sum == s2.sum, s1.sum == s3.sum, s1.weight == s2.weight, s1.sum2 == s3.sum2, s1.min == s2.min, s1.max == s3.max]
        return And(*cs)


@contract(HB + ".__mul__", props=["C06"], name="scaling: c*h == h*c and (h*c)/c reproduces h")
class _scale_algebra:
    bounded = True
    bound_note = "algebra: histogram with 2 bins; contents and the factor symbolic"

    def configs():
        return [{"dim": 1, "dtype": "int64"}, {"dim": 2, "dtype": "float64"}]

    def inputs(b):
        c = b.real("c")
        b.assume(c > 0)
        return dict(h=mk_hist(b, "h", b.cfg.dim, 2, "static", b.cfg.dtype), c=c)

    def invoke(I, fn, a, cfg):
        if I is not None:
            hc = I.binop("*", a.h, a.c)
            ch = I.binop("*", a.c, a.h)
            back = I.binop("/", hc, a.c)
        else:
            hc, ch, back = a.h * a.c, a.c * a.h, (a.h * a.c) / a.c
        return (hc, ch, back)

    @ensures("commutes_and_division_undoes_it")
    def _(a, old, result):
        hc, ch, back = result
        cs = [same(F(hc), F(ch)), same(E(hc), E(ch)), same(M(hc), M(ch)),
              *[close(x, y) for x, y in zip(F(back), F(old.h))], *[close(x, y) for x, y in zip(E(back), E(old.h))],
              *[close(x, y) for x, y in zip(M(back), M(old.h))], same_hist(old.h, a.h)]
        if has(old.h, "_stats"):
            s0, s1 = attr(old.h, "_stats"), attr(back, "_stats")
            cs += [close(s1.sum, s0.sum), close(s1.sum2, s0.sum2), close(s1.weight, s0.weight), s1.min == s0.min, s1.max == s0.max]
        return And(*cs)


@contract("physt.histogram_nd:HistogramND.projection", props=["C09"], name="projection: stepwise == direct, total kept")
class _proj_steps:
    bounded = True
    bound_note = "projection chains on a (2,1,2) histogram; contents symbolic"

    def configs():
        return [{"first": (0, 2), "then": (1,), "direct": (2,)}, {"first": (1, 2), "then": (0,), "direct": (1,)}, {"first": (0, 1), "then": (0,), "direct": (0,)}]

    def inputs(b):
        bins = nd_binnings(b, (2, 1, 2), ["static"] * 3)
        return dict(self=histnd(b, "h", bins, (2, 1, 2), meta={"name": None, "axis_names": ("x", "y", "z")}))

    def invoke(I, fn, a, cfg):
        if I is not None:
            p1 = I.call(fn, [a.self] + list(cfg.first), {})
            p2 = I.call(I.getattr(p1, "projection"), list(cfg.then), {})
            d = I.call(fn, [a.self] + list(cfg.direct), {})
        else:
            p1 = a.self.projection(*cfg.first)
            p2 = p1.projection(*cfg.then)
            d = a.self.projection(*cfg.direct)
        return (p1, p2, d)

    @ensures("projecting_in_steps_equals_projecting_once")
    def _(a, old, result):
        p1, p2, d = result
        return And(same(F(p2), F(d)), same(E(p2), E(d)), total(F(p1)) == total(F(old.self)), total(F(d)) == total(F(old.self)),
                   tuple(attr(p2, "_meta_data")["axis_names"]) == tuple(attr(d, "_meta_data")["axis_names"]),
                   same_binning(attr(p2, "_binnings")[0], attr(d, "_binnings")[0]), typename(p2) == typename(d), same_hist(old.self, a.self))


# ---------------------------------------------------------------------------------------------- pretty widths (C07)

def _pow10(p):
    from pyvc.values import Sym, mk, term_of, pow_fn, raw
    import z3
    p = raw(p)
    if isinstance(p, Sym):
        return mk(pow_fn()(z3.RealVal(10), term_of(p, "float")), "float")
    return 10.0 ** p


@contract("physt._bin_utils:find_pretty_width_decimal", props=["C07"])
class _pretty_width:
    def inputs(b):
        w = b.real("raw")
        b.assume(w > 0)
        return dict(raw_width=w)

    @ensures("one_of_the_pretty_candidates_of_its_decade_and_the_nearest_in_log_scale")
    def _(a, old, result):
        from pyvc.spec import _ufun_app
        raw_w = old.raw_width
        p = floor(_ufun_app("log10", raw_w))
        P = _pow10(p)
        cands = [m * P for m in (0.5, 1, 2, 2.5, 5, 10)]
        dist = lambda x: absolute(_ufun_app("log", div(x, raw_w)))
        return And(Or(*[close(result, c) for c in cands]), *[dist(result) <= dist(c) + 1e-12 for c in cands])
