"""C20: plots show exactly the histogram's data and never modify it (bounded; draw-log postconditions).

ASSUMED: matplotlib / plotly primitives draw what their arguments say (pyvc/plotstubs.py records the arguments);
Normalize(clip=True) followed by a colormap is monotone in the value."""
import io
import contextlib
import numpy as np
from pyvc.vc import contract, ensures, raises
from pyvc.spec import *
from pyvc.plotstubs import DrawAxes, Record, Color
from .common import *
from .arith import F, E, M, mk_hist

PC = "physt.plotting.common:"
MPL = "physt.plotting.matplotlib:"
PLY = "physt.plotting.plotly:"
BOUND = "plotting: 1D histograms with 2 bins, 2D with shape (1,2); contents, edges symbolic; options enumerated"


def expected_data(h, density, cumulative):
    f = F(h)
    bins = bins_of(attr(h, "_binnings")[0])
    if density and cumulative:
        tot = total(f)
        out, acc = [], 0
        for x in f:
            acc = acc + x
            out.append(div(acc, tot))
        return out
    if density:
        return [div(x, r - l) for x, (l, r) in zip(f, bins)]
    if cumulative:
        out, acc = [], 0
        for x in f:
            acc = acc + x
            out.append(acc)
        return out
    return f


def close_list(a, b):
    if len(a) != len(b):
        return False
    return And(*[close(x, y) for x, y in zip(a, b)]) if a else True


# ---------------------------------------------------------------------------------------------- common helpers

@contract(PC + "get_data", props=["C20"])
class _get_data:
    bounded = True
    bound_note = BOUND

    def configs():
        return [{"dim": 1, "density": d, "cumulative": c, "flatten": False} for d in (False, True) for c in (False, True)] + \
               [{"dim": 2, "density": d, "cumulative": False, "flatten": fl} for d in (False, True) for fl in (False, True)] + \
               [{"dim": 2, "density": False, "cumulative": True, "flatten": False}]

    def inputs(b):
        c = b.cfg
        h = mk_hist(b, "h", c.dim, 2, "static", "int64")
        b.assume(total(F(h)) > 0)
        return dict(histogram=h, density=c.density, cumulative=c.cumulative, flatten=c.flatten)

    @ensures("frequencies_densities_or_cumulative_sums")
    def _(a, old, result):
        if len(attr(old.histogram, "_binnings")) == 1:
            want = expected_data(old.histogram, old.density, old.cumulative)
        else:
            f = F(old.histogram)
            b0, b1 = (bins_of(x) for x in attr(old.histogram, "_binnings"))
            sizes = [(r0 - l0) * (r1 - l1) for (l0, r0) in b0 for (l1, r1) in b1]
            want = [div(x, s) for x, s in zip(f, sizes)] if old.density else f
            if old.flatten and len(shape_of(result)) != 1:
                return False
        return And(close_list(elems(result), want), same_hist(old.histogram, a.histogram))

    @raises(TypeError, "cumulative_values_only_for_1d", state=lambda a, old: same_hist(old.histogram, a.histogram))
    def _(o):
        return len(attr(o.histogram, "_binnings")) != 1 and o.cumulative


@contract(PC + "get_err_data", props=["C20"])
class _get_err_data:
    bounded = True
    bound_note = BOUND

    def configs():
        return [{"density": d, "cumulative": c} for d in (False, True) for c in (False, True)]

    def inputs(b):
        c = b.cfg
        return dict(histogram=mk_hist(b, "h", 1, 2, "static", "float64"), density=c.density, cumulative=c.cumulative)

    @ensures("sqrt_of_errors2_divided_by_bin_size_for_densities")
    def _(a, old, result):
        e2 = E(old.histogram)
        bins = bins_of(attr(old.histogram, "_binnings")[0])
        r = elems(result)
        cs = []
        for k in range(len(e2)):
            s = (bins[k][1] - bins[k][0]) if old.density else 1
            cs.append(And(r[k] >= 0, close(r[k] * r[k] * s * s, e2[k])))
        return And(same_hist(old.histogram, a.histogram), *cs)

    @raises(ValueError, "no_error_bars_for_cumulative_plots")
    def _(o):
        return o.cumulative


@contract(PC + "check_ndim", props=["C20"])
class _check_ndim:
    bounded = True
    bound_note = BOUND

    def configs():
        return [{"allowed": a, "dim": d} for a in (1, 2, (1, 2)) for d in (1, 2)]

    def inputs(b):
        return dict(ndim=b.cfg.allowed, h=mk_hist(b, "h", b.cfg.dim, 2, "static", "int64"))

    def invoke(I, fn, a, cfg):
        if I is not None:
            from pyvc.interp import Builtin
            deco = I.call(fn, [a.ndim], {})
            wrapped = I.call(deco, [Builtin("probe", lambda h, *x, **k: "called")], {})
            return I.call(wrapped, [a.h], {})
        return fn(a.ndim)(lambda h, *x, **k: "called")(a.h)

    @ensures("plot_function_reached_only_for_allowed_dimension")
    def _(a, old, result):
        allowed = (old.ndim,) if isinstance(old.ndim, int) else tuple(old.ndim)
        return And(result == "called", len(attr(old.h, "_binnings")) in allowed)

    @raises(TypeError, "wrong_dimension_refused", state=lambda a, old: same_hist(old.h, a.h))
    def _(o):
        allowed = (o.ndim,) if isinstance(o.ndim, int) else tuple(o.ndim)
        return len(attr(o.h, "_binnings")) not in allowed


@contract(PC + "pop_kwargs_with_prefix", props=["C20"])
class _pop_kwargs:
    def inputs(b):
        return dict(prefix="text_", kwargs={"text_color": "r", "text_alpha": b.real("al"), "color": "b", "textual": 1})

    @ensures("prefixed_items_moved_without_prefix")
    def _(a, old, result):
        return And(set(result) == {"color", "alpha"}, result["color"] == "r", result["alpha"] == old.kwargs["text_alpha"],
                   set(a.kwargs) == {"color", "textual"}, a.kwargs["color"] == "b")


@contract(PC + "get_value_format", props=["C20"])
class _value_format:
    def configs():
        return [{"vf": v} for v in (None, "", ".2f", "bad")]

    def inputs(b):
        return dict(value_format={"bad": 3.5}.get(b.cfg.vf, b.cfg.vf))

    def invoke(I, fn, a, cfg):
        if I is not None:
            f = I.call(fn, [a.value_format], {})
            return I.call(f, [1.5], {})
        return fn(a.value_format)(1.5)

    @ensures("str_or_format_spec")
    def _(a, old, result):
        return result == ("1.50" if old.value_format == ".2f" else "1.5")

    @raises(TypeError, "neither_string_nor_callable")
    def _(o):
        return isinstance(o.value_format, float)


TTH = PC + "TimeTickHandler."


@contract(TTH + "get_time_ticks", props=["C20"])
class _time_ticks:
    bounded = True
    bound_note = "time ticks: at most 6 ticks inside the range; range ends and histogram edges symbolic, unit enumerated"
    extent_cap = 6

    def configs():
        return [{"level": lv} for lv in (("sec", 1), ("sec", 2.5), ("min", 1), ("hour", 2), ("edge", 0), ("center", 0))]

    def inputs(b):
        lo, hi = b.real("lo"), b.real("hi")
        b.assume(lo <= hi)
        h = mk_hist(b, "h", 1, 2, "numpy", "int64")
        return dict(self=b.obj(PC + "TimeTickHandler", level=None), h1=h, level=tuple(b.cfg.level), min_=lo, max_=hi)

    @ensures("ticks_are_the_multiples_of_the_unit_inside_the_range")
    def _(a, old, result):
        kind, n = old.level
        ticks = [x for x in result]
        bins = bins_of(attr(old.h1, "_binnings")[0])
        if kind == "edge":
            return same(ticks, [bins[0][0]] + [r for _, r in bins])
        if kind == "center":
            return And(len(ticks) == len(bins), *[2 * t == l + r for t, (l, r) in zip(ticks, bins)])
        width = n * {"sec": 1, "min": 60, "hour": 3600}[kind]
        cs = []
        for i, t in enumerate(ticks):
            cs += [old.min_ <= t, t <= old.max_, is_int_valued(div(t, width))]
            if i:
                cs.append(t == ticks[i - 1] + width)
        if ticks:
            cs += [ticks[0] - width < old.min_, ticks[-1] + width > old.max_]
        else:
            # no multiple of the unit inside [min, max]
            cs.append(floor(div(old.max_, width)) < ceil(div(old.min_, width)))
        return And(*cs)


@contract(TTH + "split_hms", props=["C20"])
class _split_hms:
    def inputs(b):
        return dict(cls=b.module_attr("physt.plotting.common", "TimeTickHandler"), value=b.real("v"))

    def invoke(I, fn, a, cfg):
        if I is not None:
            return I.call(I.getattr(a.cls, "split_hms"), [a.value], {})
        return a.cls.split_hms(a.value)

    @ensures("sign_hours_minutes_seconds_recompose_the_value")
    def _(a, old, result):
        neg, h, m, s = result
        v = old.value
        return And(Iff(neg, v < 0), h >= 0, 0 <= m, m < 60, 0 <= s, s < 60, h * 3600 + m * 60 + s == absolute(v))


@contract(TTH + "parse_level", props=["C20"])
class _parse_level:
    def configs():
        return [{"v": v} for v in ("2h", "min", "30s", "1.5d", "edges", "center", "nonsense", "3x")] + [{"v": ("sec", 5)}, {"v": ("week", 1)}]

    def inputs(b):
        v = b.cfg.v
        return dict(cls=b.module_attr("physt.plotting.common", "TimeTickHandler"), value=tuple(v) if isinstance(v, (list, tuple)) else v)

    def invoke(I, fn, a, cfg):
        if I is not None:
            return I.call(I.getattr(a.cls, "parse_level"), [a.value], {})
        return a.cls.parse_level(a.value)

    WANT = {"2h": ("hour", 2), "min": ("min", 1), "30s": ("sec", 30.0), "1.5d": ("day", 1.5), "edges": ("edge", 0), "center": ("center", 0)}

    @ensures("unit_and_count")
    def _(a, old, result):
        want = _parse_level.WANT.get(old.value, old.value)
        return And(result[0] == want[0], result[1] == want[1])

    @raises(ValueError, "unparseable_level_refused")
    def _(o):
        return o.value in ("nonsense", "3x") or (isinstance(o.value, tuple) and o.value[0] == "week")


# ---------------------------------------------------------------------------------------------- dispatch

@contract("physt.plotting:plot", props=["C20"])
class _plot_dispatch:
    bounded = True
    bound_note = BOUND

    def configs():
        return [{"kind": "nonsense", "backend": "matplotlib"}, {"kind": "bar", "backend": "nope"}, {"kind": "map", "backend": "matplotlib"},
                {"kind": "bar", "backend": "plotly", "dim": 2},
                # names that exist in the back-end module without being plot kinds (helpers, imports) are not plot kinds
                {"kind": "get_data", "backend": "matplotlib"}, {"kind": "pop_kwargs_with_prefix", "backend": "plotly"}, {"kind": "np", "backend": "matplotlib"}]

    def inputs(b):
        return dict(histogram=mk_hist(b, "h", getattr(b.cfg, "dim", 1), 2, "static", "int64"), kind=b.cfg.kind, backend=b.cfg.backend)

    @raises((RuntimeError, TypeError), "unknown_backend_kind_or_wrong_dimension_refused", state=lambda a, old: same_hist(old.histogram, a.histogram))
    def _(o):
        return True


# ---------------------------------------------------------------------------------------------- matplotlib 1D kinds

def _mpl1d_cfgs():
    out = []
    for kind in ("bar", "scatter", "line", "fill", "step"):
        for density, cumulative in ((False, False), (True, False), (False, True)):
            out.append({"kind": kind, "density": density, "cumulative": cumulative, "errors": False, "labels": "meta"})
    for kind in ("bar", "scatter", "line"):
        out.append({"kind": kind, "density": False, "cumulative": False, "errors": True, "labels": "meta"})
        out.append({"kind": kind, "density": True, "cumulative": False, "errors": True, "labels": "override"})
    out.append({"kind": "bar", "density": False, "cumulative": False, "errors": False, "labels": "meta", "show_values": True})
    out.append({"kind": "bar", "density": False, "cumulative": False, "errors": False, "labels": "meta", "ticks": "center"})
    return out


def arr_elems(x):
    return elems(x)


@contract(MPL + "bar", props=["C20"], name="matplotlib 1D plots")
class _mpl1d:
    bounded = True
    bound_note = BOUND
    configs = staticmethod(_mpl1d_cfgs)

    def inputs(b):
        c = b.cfg
        h = mk_hist(b, "h", 1, 2, "static", "float64", meta={"name": "nm", "title": "tt", "axis_names": ("xx",)})
        b.assume(total(F(h)) > 0)
        return dict(h=h, ax=DrawAxes())

    def invoke(I, fn, a, cfg):
        kw = dict(ax=a.ax, density=cfg.density, cumulative=cfg.cumulative)
        if cfg.errors:
            kw["errors"] = True
        if cfg.labels == "override":
            kw.update(title="T2", xlabel="X2", ylabel="Y2")
        if getattr(cfg, "show_values", False):
            kw["show_values"] = True
        if getattr(cfg, "ticks", None):
            kw["ticks"] = cfg.ticks
        if I is not None:
            f = I.load_module("physt.plotting.matplotlib").d[cfg.kind]
            I.call(f, [a.h], kw)
        else:
            import physt.plotting.matplotlib as m
            getattr(m, cfg.kind)(a.h, **kw)
        return a.ax

    @ensures("marks_at_edges_or_centres_with_the_right_heights")
    def _(a, old, result):
        ax = result
        kind = a._cfg_kind
        bins = bins_of(attr(old.h, "_binnings")[0])
        data = expected_data(old.h, a._cfg_density, a._cfg_cumulative)
        lefts = [l for l, _ in bins]
        centres2 = [l + r for l, r in bins]
        widths = [r - l for l, r in bins]
        edges = [bins[0][0]] + [r for _, r in bins]
        if kind == "bar":
            (args, kw), = ax.calls("bar")
            return And(same(arr_elems(args[0]), lefts), close_list(arr_elems(args[1]), data), same(arr_elems(args[2]), widths), kw.get("align") == "edge")
        if kind == "scatter":
            (args, kw), = ax.calls("scatter")
            return And(*[2 * x == c for x, c in zip(arr_elems(args[0]), centres2)], close_list(arr_elems(args[1]), data))
        if kind == "line":
            calls = ax.calls("errorbar") if a._cfg_errors else ax.calls("plot")
            (args, kw), = calls
            return And(*[2 * x == c for x, c in zip(arr_elems(args[0]), centres2)], close_list(arr_elems(args[1]), data))
        if kind == "fill":
            (args, kw), = ax.calls("fill_between")
            return And(*[2 * x == c for x, c in zip(arr_elems(args[0]), centres2)], args[1] == 0, close_list(arr_elems(args[2]), data))
        (args, kw), = ax.calls("step")
        return And(same(arr_elems(args[0]), edges), close_list(arr_elems(args[1]), [data[0]] + list(data)))

    @ensures("error_bars_span_sqrt_errors2")
    def _(a, old, result):
        if not a._cfg_errors:
            return And(not result.calls("errorbar"), all("yerr" not in kw for _, kw in result.calls("bar")))
        e2 = E(old.h)
        bins = bins_of(attr(old.h, "_binnings")[0])
        if a._cfg_kind == "bar":
            (args, kw), = result.calls("bar")
        else:
            (args, kw), = result.calls("errorbar")
        err = arr_elems(kw["yerr"])
        cs = []
        for k in range(len(e2)):
            s = (bins[k][1] - bins[k][0]) if a._cfg_density else 1
            cs.append(And(err[k] >= 0, close(err[k] * err[k] * s * s, e2[k])))
        return And(*cs)

    @ensures("title_and_labels_from_metadata_unless_overridden")
    def _(a, old, result):
        t = [x[0][0] for x in result.calls("set_title")]
        xl = [x[0][0] for x in result.calls("set_xlabel")]
        yl = [x[0][0] for x in result.calls("set_ylabel")]
        if a._cfg_labels == "override":
            return And(t == ["T2"], xl == ["X2"], yl == ["Y2"])
        return And(t == ["tt"], xl == ["xx"], yl == [])

    @ensures("values_and_ticks_on_request_histogram_untouched")
    def _(a, old, result):
        cs = [same_hist(old.h, a.h)]
        bins = bins_of(attr(old.h, "_binnings")[0])
        if getattr(a, "_cfg_show_values", False):
            texts = result.calls("text")
            cs.append(len(texts) == len(bins))
            data = expected_data(old.h, False, False)
            for (args, kw), (l, r), y in zip(texts, bins, data):
                cs.append(And(2 * args[0] == l + r, close(args[1], y)))
        if getattr(a, "_cfg_ticks", None) == "center":
            (args, kw), = result.calls("set_xticks")
            cs.append(And(*[2 * x == l + r for x, (l, r) in zip(arr_elems(args[0]), bins)]))
        return And(*cs)


# ---------------------------------------------------------------------------------------------- matplotlib 2D map

def rect_info(p):
    """(x, y, width, height, colour level / rgba)"""
    if isinstance(p, Record):
        (xy, w, h) = p.args[:3]
        return xy[0], xy[1], w, h, p.kw.get("facecolor")
    x, y = p.get_xy()
    return x, y, p.get_width(), p.get_height(), p.get_facecolor()


@contract(MPL + "map", props=["C20"], name="matplotlib 2D map")
class _mplmap:
    bounded = True
    bound_note = BOUND

    def configs():
        return [{"show_zero": True, "density": False}, {"show_zero": False, "density": False}, {"show_zero": True, "density": True},
                {"show_zero": False, "density": False, "negative": True}]      # contents of any sign (differences of histograms)

    def inputs(b):
        bins = [make_binning(b, f"B{i}", "static", s) for i, s in enumerate((1, 2))]
        h = histnd(b, "h", bins, (1, 2), dtype="float64", meta={"name": "nm", "title": "tt", "axis_names": ("xx", "yy")},
                   wf=not getattr(b.cfg, "negative", False))
        b.assume(total(F(h)) > 0)
        return dict(h=h, ax=DrawAxes())

    def invoke(I, fn, a, cfg):
        kw = dict(ax=a.ax, show_zero=cfg.show_zero, density=cfg.density, show_colorbar=False)
        if I is not None:
            I.call(I.load_module("physt.plotting.matplotlib").d["map"], [a.h], kw)
        else:
            import physt.plotting.matplotlib as m
            m.map(a.h, **kw)
        return a.ax

    @ensures("one_cell_per_bin_at_its_position_colour_monotone_in_value")
    def _(a, old, result):
        b0, b1 = (bins_of(x) for x in attr(old.h, "_binnings"))
        f = F(old.h)
        cells = [(l0, l1, r0 - l0, r1 - l1) for (l0, r0) in b0 for (l1, r1) in b1]
        data = [div(x, c[2] * c[3]) for x, c in zip(f, cells)] if a._cfg_density else f
        patches = [args[0] for args, kw in result.calls("add_patch")]
        infos = [rect_info(p) for p in patches]
        cs = []
        if a._cfg_show_zero:
            cs.append(len(infos) == len(cells))
        for k, c in enumerate(cells):
            # the rectangle of cell k (present unless its value is zero and show_zero is off)
            matches = [i for i in infos if True]
            found = Or(*[And(i[0] == c[0], i[1] == c[1], i[2] == c[2], i[3] == c[3]) for i in infos]) if infos else False
            cs.append(Implies(Or(a._cfg_show_zero, data[k] != 0), found))
        # colour monotone in the value: larger value -> not smaller normalised level (symbolic world: the level is recorded)
        if infos and isinstance(infos[0][4], Color) and a._cfg_show_zero:
            lv = [i[4].level for i in infos]
            for i in range(len(lv)):
                for j in range(len(lv)):
                    cs.append(Implies(data[i] <= data[j], lv[i] <= lv[j]))
        t = [x[0][0] for x in result.calls("set_title")]
        cs.append(And(t == ["tt"], [x[0][0] for x in result.calls("set_xlabel")] == ["xx"], [x[0][0] for x in result.calls("set_ylabel")] == ["yy"]))
        return And(same_hist(old.h, a.h), *cs)


# ---------------------------------------------------------------------------------------------- plotly

def rec_get(o, name):
    if isinstance(o, Record):
        return o.kw.get(name)
    return getattr(o, name)


@contract(PLY + "bar", props=["C20"], name="plotly plots")
class _plotly:
    bounded = True
    bound_note = BOUND

    def configs():
        return [{"kind": k, "density": d} for k in ("bar", "line", "scatter") for d in (False, True)] + [{"kind": "map", "density": False}] + \
               [{"kind": k, "density": True, "collection": 2} for k in ("line", "scatter", "bar")]      # every member of a collection gets the options

    def inputs(b):
        c = b.cfg
        if getattr(c, "collection", 0):
            from .more import collection
            return dict(h=collection(b, c.collection, "float64"))
        if c.kind == "map":
            bins = [make_binning(b, f"B{i}", "static", s) for i, s in enumerate((1, 2))]
            return dict(h=histnd(b, "h", bins, (1, 2), dtype="float64"))
        h = mk_hist(b, "h", 1, 2, "static", "float64", meta={"name": "nm", "title": "tt", "axis_names": ("xx",)})
        return dict(h=h)

    def invoke(I, fn, a, cfg):
        kw = {"density": True} if cfg.density else {}
        if I is not None:
            return I.call(I.load_module("physt.plotting.plotly").d[cfg.kind], [a.h], kw)
        import physt.plotting.plotly as m
        return getattr(m, cfg.kind)(a.h, **kw)

    @ensures("traces_carry_centres_heights_widths")
    def _(a, old, result):
        traces = rec_get(result, "data")
        if getattr(a, "_cfg_collection", 0):
            hs = attr(old.h, "histograms")
            cs = [len(traces) == len(hs)]
            for tr, hh in zip(traces, hs):
                bins = bins_of(attr(hh, "_binnings")[0])
                cs += [*[2 * x == l + r for x, (l, r) in zip(elems(rec_get(tr, "x")), bins)],
                       close_list(elems(rec_get(tr, "y")), expected_data(hh, a._cfg_density, False))]
            return And(*cs, *[same_hist(x, y) for x, y in zip(hs, attr(a.h, "histograms"))])
        tr = traces[0]
        if a._cfg_kind == "map":
            z = rec_get(tr, "z")
            return And(same(elems(z), F(old.h)), same_hist(old.h, a.h))
        bins = bins_of(attr(old.h, "_binnings")[0])
        data = expected_data(old.h, a._cfg_density, False)
        cs = [len(traces) == 1, *[2 * x == l + r for x, (l, r) in zip(elems(rec_get(tr, "x")), bins)], close_list(elems(rec_get(tr, "y")), data)]
        if a._cfg_kind == "bar":
            cs.append(same(elems(rec_get(tr, "width")), [r - l for l, r in bins]))
        else:
            cs.append(rec_get(tr, "mode") == ("lines" if a._cfg_kind == "line" else "markers"))
        return And(same_hist(old.h, a.h), *cs)


# ---------------------------------------------------------------------------------------------- ASCII

@contract("physt.plotting.ascii:hbar", props=["C20"])
class _hbar:
    bounded = True
    bound_note = "ascii hbar: decided by the cross-check on the real code only (string repetition by a symbolic count is outside the subset)"
    standin = True

    def configs():
        return [{"dtype": "int64"}, {"dtype": "float64"}]

    def inputs(b):
        h = mk_hist(b, "h", 1, 2, "static", b.cfg.dtype)
        b.assume(total(F(h)) > 0)
        return dict(h1=h, width=8)

    def invoke(I, fn, a, cfg):
        if I is not None:
            I.call(fn, [a.h1], {"width": a.width})
            return [args[0] for n, args, k in I.draw_log if n == "print"]
        buf = io.StringIO()
        with contextlib.redirect_stdout(buf):
            fn(a.h1, width=a.width)
        return buf.getvalue().splitlines()

    @ensures("one_bar_per_bin_proportional_to_its_share")
    def _(a, old, result):
        f = F(old.h1)
        tot = total(f)
        cs = [len(result) == len(f)]
        for line, x in zip(result, f):
            cs.append(And(set(line) <= {"#"}, absolute(len(line) - 8 * x / tot) <= 0.5 + 1e-9))
        return And(same_hist(old.h1, a.h1), *cs)
