"""C01: 1D construction (h1 facade, calculate_1d_frequencies, extract_*).  Bounded: data length and bin count are
fixed small numbers per configuration, contents (values, weights, edges, gaps) are symbolic."""
import numpy as np
from pyvc.vc import contract, ensures, raises
from pyvc.spec import *
from .common import *


def wsum(data, weights, pred):
    """sum of weights[j] over the j with pred(data[j])  (weights None -> 1)"""
    acc = 0
    for j, x in enumerate(data):
        w = 1 if weights is None else weights[j]
        acc = acc + If(pred(x), w, 0 if not isinstance(w, float) else 0.0)
    return acc


def exactly_consecutive(bins):
    return And(*[bins[k][1] == bins[k + 1][0] for k in range(len(bins) - 1)]) if len(bins) > 1 else True


def micro_gap(bins, rtol=1e-5, atol=1e-8):
    """some neighbouring edges differ, but by no more than np.allclose's tolerance"""
    cs = []
    for k in range(len(bins) - 1):
        r, l = bins[k][1], bins[k + 1][0]
        cs.append(And(r != l, absolute(l - r) <= atol + rtol * absolute(r)))
    return Or(*cs) if cs else False


def _h1_cfgs():
    out = []
    for n in (0, 1, 2):
        for m in (1, 2):
            for kind in ("gapped", "fixed"):
                for wk in (None, "float64", "int64"):
                    out.append({"n": n, "m": m, "bins": kind, "weights": wk, "keep_missed": True})
    out.append({"n": 3, "m": 2, "bins": "gapped", "weights": "float64", "keep_missed": True})
    for dropna in (True, False):
        out.append({"n": 4, "m": 2, "bins": "fixed", "weights": "float64", "keep_missed": True, "layout": "transposed", "dropna": dropna})
    out.append({"n": 2, "m": 3, "bins": "gapped", "weights": None, "keep_missed": False})
    return out


@contract("physt._facade:h1", props=["C01", "C17"], name="physt._facade:h1[binning object]")       # C17: multi-dimensional / transposed inputs
class _h1:
    bounded = True
    bound_note = "h1: data length n<=3, bin count m<=3, contents symbolic"
    configs = staticmethod(_h1_cfgs)

    def thorough_extra():        # larger extents in the thorough tier
        return [{"n": 4, "m": 3, "bins": "gapped", "weights": "float64", "keep_missed": True},
                {"n": 3, "m": 4, "bins": "fixed", "weights": None, "keep_missed": True},
                {"n": 4, "m": 4, "bins": "gapped", "weights": "int64", "keep_missed": True}]

    def inputs(b):
        binning = make_binning(b, "B", b.cfg.bins, b.cfg.m)
        layout = getattr(b.cfg, "layout", None)
        if layout == "transposed":      # a (2, n/2) view of a (n/2, 2) buffer: element order differs from memory order
            data = b.array("d", (b.cfg.n // 2, 2)).T
        else:
            data = b.array("d", (b.cfg.n,))
        kw = dict(data=data, bins=binning, keep_missed=b.cfg.keep_missed)
        if hasattr(b.cfg, "dropna"):
            kw["dropna"] = b.cfg.dropna
        if b.cfg.weights:
            w = b.array("w", (b.cfg.n // 2, 2) if layout == "transposed" else (b.cfg.n,), b.cfg.weights)
            kw["weights"] = w.T if layout == "transposed" else w
            nonneg(b, w)         # requires: weights >= 0 (C18: negative contents are refused)
        return kw

    known = {
        # F19b: is_consecutive() compares with np.allclose: bins whose edges differ by less than the tolerance are
        # treated as consecutive, a value in the micro-gap is counted nowhere while under/overflow read as numbers
        "underflow_overflow_account_for_the_rest": [("F19b", lambda o: micro_gap(bins_of(o.bins)))],
    }

    @ensures("each_bin_holds_weight_of_its_values")
    def _(a, old, result):
        bins = bins_of(old.bins)
        d = elems(old.data)
        w = elems(old.weights) if hasattr(old, "weights") else None
        f = elems(attr(result, "_frequencies"))
        return And(*[f[k] == wsum(d, w, lambda x, k=k: inbin(bins, k, x)) for k in range(len(bins))])

    @ensures("errors2_are_squared_weights")
    def _(a, old, result):
        bins = bins_of(old.bins)
        d = elems(old.data)
        w = [sq(x) for x in elems(old.weights)] if hasattr(old, "weights") else None
        e = elems(attr(result, "_errors2"))
        return And(*[e[k] == wsum(d, w, lambda x, k=k: inbin(bins, k, x)) for k in range(len(bins))])

    @ensures("underflow_overflow_account_for_the_rest")
    def _(a, old, result):
        bins = bins_of(old.bins)
        d = elems(old.data)
        w = elems(old.weights) if hasattr(old, "weights") else None
        consecutive = And(*[bins[k][1] == bins[k + 1][0] for k in range(len(bins) - 1)]) if len(bins) > 1 else True
        missed = elems(attr(result, "_missed"))
        if not old.keep_missed:
            return True
        under = wsum(d, w, lambda x: x < bins[0][0])
        over = wsum(d, w, lambda x: x > bins[-1][1])
        return And(Implies(consecutive, And(missed[0] == under, missed[1] == over)),
                   Implies(Not(consecutive), And(isnan(missed[0]), isnan(missed[1]))))


@contract("physt._facade:h1", props=["C01", "C17"], name="physt._facade:h1[infinite values]")
class _h1_inf:
    """an infinite value is an entry like any other -- it lies below / above every bin and is counted in underflow / overflow with its
    weight (it is not "missing data").  Arithmetic on infinities is outside the symbolic value model (the statistics multiply the data
    by the weights), so this contract is decided by the cross-check on the real code only (bounded stand-in)."""
    bounded = True
    bound_note = "h1 with infinite values: decided by the cross-check on the real code only; 3 values, 2 bins"
    standin = True

    def configs():
        return [{"sign": 1.0, "weights": True, "dropna": True}, {"sign": -1.0, "weights": False, "dropna": True},
                {"sign": 1.0, "weights": False, "dropna": False}]

    def inputs(b):
        c = b.cfg
        binning = make_binning(b, "B", "fixed", 2)
        data = b.array("d", (3,))
        if isinstance(data, np.ndarray):
            data[1] = c.sign * float("inf")
        else:
            data.set((1,), c.sign * float("inf"))
        kw = dict(data=data, bins=binning, dropna=c.dropna)
        if c.weights:
            kw["weights"] = b.array("w", (3,))
            nonneg(b, kw["weights"])
        return kw

    @ensures("infinite_values_are_counted_below_or_above_the_bins")
    def _(a, old, result):
        bins = bins_of(old.bins)
        d = elems(old.data)
        w = elems(old.weights) if hasattr(old, "weights") else None
        f = elems(attr(result, "_frequencies"))
        missed = elems(attr(result, "_missed"))
        return And(*[close(f[k], wsum(d, w, lambda x, k=k: inbin(bins, k, x))) for k in range(len(bins))],
                   close(missed[0], wsum(d, w, lambda x: x < bins[0][0])), close(missed[1], wsum(d, w, lambda x: x > bins[-1][1])))
