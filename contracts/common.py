"""Shared input builders for the contracts: symbolic (and, for replay, concrete) physt objects.

Every builder goes through the `b` API of pyvc.vc (SymB / ConcB) so that the same description yields interpreter
objects for VC generation and real physt objects for replay."""
from pyvc.spec import *

FWB = "physt.binnings:FixedWidthBinning"
STB = "physt.binnings:StaticBinning"
NPB = "physt.binnings:NumpyBinning"
EXB = "physt.binnings:ExponentialBinning"
H1 = "physt.histogram1d:Histogram1D"
HND = "physt.histogram_nd:HistogramND"
H2 = "physt.histogram_nd:Histogram2D"
STATS = "physt.statistics:Statistics"
NAN = float("nan")


def grid(t, w, s, i):
    """edge i of a fixed-width binning: (times_min + i) * width + shift"""
    return (t + i) * w + s


def fixed_width(b, name, count=None, adaptive=False, ire=False, align=True, empty_min_none=False):
    """FixedWidthBinning with symbolic width > 0, grid origin, shift; `count` concrete or None (symbolic >= 0)."""
    w = b.real(name + ".w")
    t = b.int(name + ".t")
    s = b.real(name + ".s")
    c = b.int(name + ".c") if count is None else count
    b.assume(w > 0)
    if count is None:
        b.assume(c >= 0)
    if count == 0:
        t = None        # invariant of the constructor: an empty fixed-width binning has no origin index yet
    return b.obj(FWB, _consecutive=None, _bins=None, _numpy_bins=None, _includes_right_edge=ire, _adaptive=adaptive,
                 _bin_width=w, _align=align, _bin_count=c, _times_min=t, _shift=s)


def rising(edges_pairs):
    """list of (l, r) pairs: l < r and r_k <= l_{k+1}"""
    cs = []
    for k, (l, r) in enumerate(edges_pairs):
        cs.append(l < r)
        if k + 1 < len(edges_pairs):
            cs.append(r <= edges_pairs[k + 1][0])
    return And(*cs) if cs else True


def static_binning(b, name, n, consecutive=None, ire=True):
    """StaticBinning over an (n,2) symbolic edge array, rising; consecutive=True/False/None(any)."""
    bins = b.array(name + ".bins", (n, 2))
    rows = aslist(bins)
    b.assume(rising([(r[0], r[1]) for r in rows]))
    if consecutive is True:
        for k in range(n - 1):
            b.assume(rows[k][1] == rows[k + 1][0])
    elif consecutive is False and n > 1:
        b.assume(Or(*[rows[k][1] < rows[k + 1][0] for k in range(n - 1)]))
    return b.obj(STB, _consecutive=None, _bins=bins, _numpy_bins=None, _includes_right_edge=ire, _adaptive=False)


def numpy_binning(b, name, n, ire=True):
    edges = b.array(name + ".edges", (n + 1,))
    e = elems(edges)
    for k in range(n):
        b.assume(e[k] < e[k + 1])
    return b.obj(NPB, _consecutive=True, _bins=None, _numpy_bins=edges, _includes_right_edge=ire, _adaptive=False)


def make_binning(b, name, kind, n, **kw):
    """configuration key `warm`: the binning has been looked at before (its lazy caches are filled)"""
    if kind == "fixed":
        r = fixed_width(b, name, count=n, **kw)
    elif kind == "static":
        r = static_binning(b, name, n, consecutive=True, **kw)
    elif kind == "gapped":
        r = static_binning(b, name, n, consecutive=None, **kw)
    elif kind == "numpy":
        r = numpy_binning(b, name, n, **kw)
    else:
        raise ValueError(kind)
    if getattr(b.cfg, "warm", False):
        warm(b, r)
    return r


def warm(b, binning):
    """fill the lazy caches of a binning (bins, numpy_bins, the consecutiveness answer): every contract must also hold for
    objects that have been looked at before (representation invariant: a filled cache agrees with the defining fields)"""
    b.touch(binning, "numpy_bins")
    b.touch(binning, "is_consecutive", call=True)
    b.touch(binning, "bins")          # last: reading numpy_bins may drop the cached pairs
    return binning


def statistics(b, name, valid=True):
    if not valid:
        return b.obj(STATS, sum=NAN, sum2=NAN, min=NAN, max=NAN, weight=NAN, median=NAN)
    return b.obj(STATS, sum=b.real(name + ".sum"), sum2=b.real(name + ".sum2"), min=b.real(name + ".min"),
                 max=b.real(name + ".max"), weight=b.real(name + ".weight"), median=NAN)


def nonneg(b, arr):
    for e in elems(arr):
        b.assume(e >= 0)


def hist1d(b, name, binning, n, dtype="int64", keep_missed=True, stats="valid", meta=None, wf=True):
    """Histogram1D with symbolic contents over `binning` (n bins)."""
    freq = b.array(name + ".freq", (n,), dtype)
    err2 = b.array(name + ".err2", (n,), dtype)
    missed = b.array(name + ".missed", (3,), dtype)
    if wf:
        nonneg(b, freq)
        nonneg(b, err2)
        nonneg(b, missed)
    md = {"name": None, "axis_names": ("axis0",)} if meta is None else meta
    kw = dict(_binnings=[binning], _frequencies=freq, _errors2=err2, _missed=missed, _dtype=b.dtype(dtype),
              _meta_data=md, keep_missed=keep_missed)
    if stats is not None:
        kw["_stats"] = statistics(b, name + ".stats", valid=(stats == "valid"))
    return b.obj(H1, **kw)


def histnd(b, name, binnings, shape, dtype="int64", cls=None, keep_missed=True, meta=None, wf=True):
    d = len(shape)
    freq = b.array(name + ".freq", tuple(shape), dtype)
    err2 = b.array(name + ".err2", tuple(shape), dtype)
    missed = b.array(name + ".missed", (1,), dtype)
    if wf:
        nonneg(b, freq)
        nonneg(b, err2)
        nonneg(b, missed)
    md = {"name": None, "axis_names": tuple(f"axis{i}" for i in range(d))} if meta is None else meta
    klass = cls or (H2 if d == 2 else HND)
    return b.obj(klass, _binnings=list(binnings), _frequencies=freq, _errors2=err2, _missed=missed,
                 _dtype=b.dtype(dtype), _meta_data=md, keep_missed=keep_missed)


def bins_of(binning, n=None):
    """[(l, r)] view of a binning built by the helpers above (no property evaluation).
    n: concrete bin count to use when the stored count is a symbolic term (the caller then also states count == n)."""
    cls = typename(binning)
    if cls == "FixedWidthBinning":
        t, w, s, c = attr(binning, "_times_min"), attr(binning, "_bin_width"), attr(binning, "_shift"), attr(binning, "_bin_count")
        if n is not None:
            c = n
        return [(grid(t, w, s, i), grid(t, w, s, i + 1)) for i in range(c)]
    if cls == "NumpyBinning" or (attr(binning, "_bins") is None and attr(binning, "_numpy_bins") is not None):
        e = elems(attr(binning, "_numpy_bins"))
        return [(e[i], e[i + 1]) for i in range(len(e) - 1)]
    rows = aslist(attr(binning, "_bins"))
    return [(r[0], r[1]) for r in rows]


def inbin(bins, k, x, closed_last=True):
    l, r = bins[k]
    if closed_last and k == len(bins) - 1:
        return And(l <= x, x <= r)
    return And(l <= x, x < r)


def same_binning(b0, b1):
    """same class, same defining data and flags, same bin view; lazily filled caches (_bins, _numpy_bins,
    _consecutive) may differ as long as they are coherent with the defining data."""
    if typename(b0) != typename(b1):
        return False
    cls = typename(b0)
    cs = [attr(b0, "_includes_right_edge") == attr(b1, "_includes_right_edge"), attr(b0, "_adaptive") == attr(b1, "_adaptive")]
    if cls == "FixedWidthBinning":
        for f in ("_bin_width", "_bin_count", "_shift", "_align"):
            cs.append(same(attr(b0, f), attr(b1, f)))
        cs.append(Or(attr(b0, "_bin_count") == 0, same(attr(b0, "_times_min"), attr(b1, "_times_min"))))
        if not isinstance(attr(b1, "_bin_count"), int):
            return And(*cs)         # symbolic count: caches are checked by the accessor contracts
        v1 = bins_of(b1)
        for cache in ("_bins", "_numpy_bins"):
            c = attr(b1, cache)
            if c is not None and not (isarray(c) and shape_of(c)[0] == 0):
                flat = elems(c)
                if cache == "_bins":
                    cs.append(same(flat, [x for p in v1 for x in p]))
                else:
                    cs.append(same(flat, ([v1[0][0]] + [p[1] for p in v1]) if v1 else []))
        return And(*cs)
    if cls == "ExponentialBinning":
        for f in ("_log_min", "_log_width", "_bin_count"):
            cs.append(same(attr(b0, f), attr(b1, f)))
        return And(*cs)
    v0, v1 = bins_of(b0), bins_of(b1)
    if len(v0) != len(v1):
        return False
    cs.append(same([x for p in v0 for x in p], [x for p in v1 for x in p]))
    return And(*cs)


def rep_ok(bn, n=None):
    """representation invariant of a binning: every FILLED cache agrees with the defining fields
    (StaticBinning: _bins defines, _numpy_bins / _consecutive are caches; NumpyBinning: _numpy_bins defines; FixedWidthBinning:
    the grid fields define, _bins / _numpy_bins are caches)"""
    cls = typename(bn)
    if cls == "ExponentialBinning":
        return True
    cs = []
    if cls == "FixedWidthBinning" and not isinstance(attr(bn, "_bin_count"), int):
        if n is None:
            return True        # symbolic count: the accessor contracts state the caches
        cs.append(attr(bn, "_bin_count") == n)
    v = bins_of(bn, n)
    n = len(v)
    tol = lambda x, y: absolute(x - y) <= 1e-8 + 1e-5 * absolute(y)
    cb, ce, cc = attr(bn, "_bins"), attr(bn, "_numpy_bins"), attr(bn, "_consecutive")
    if cls != "StaticBinning" and cb is not None:
        if shape_of(cb) != (n, 2):
            return False
        cs.append(same(elems(cb), [x for p in v for x in p]))
    if cls != "NumpyBinning" and ce is not None:
        if shape_of(ce) != ((n + 1,) if n else shape_of(ce)):
            return False
        if n:
            cs.append(same(elems(ce), [v[0][0]] + [p[1] for p in v]))
    if cls == "StaticBinning" and cc is not None:
        cs.append(Iff(cc, And(*[tol(v[k + 1][0], v[k][1]) for k in range(n - 1)]) if n > 1 else True))
    return And(*cs) if cs else True


def hist_ok(h):
    """well-formedness of a histogram: coherent binnings, contents and errors of the shape of the bins and of the stored dtype"""
    bs = attr(h, "_binnings")
    f, e = attr(h, "_frequencies"), attr(h, "_errors2")
    if len(shape_of(f)) != len(bs) or shape_of(e) != shape_of(f):
        return False
    if dtype_of(f) != attr(h, "_dtype") or dtype_of(e) != attr(h, "_dtype"):
        return False
    cs = []
    for k, bn in enumerate(bs):
        if typename(bn) == "ExponentialBinning":
            cs.append(attr(bn, "_bin_count") == shape_of(f)[k])
        else:
            # the stored contents have one entry per bin (a symbolic fixed-width count is compared with the extent)
            cs.append(rep_ok(bn, shape_of(f)[k]))
            if not (typename(bn) == "FixedWidthBinning" and not isinstance(attr(bn, "_bin_count"), int)):
                if len(bins_of(bn)) != shape_of(f)[k]:
                    return False
    return And(*cs)


def well_formed(*hs):
    return And(*[hist_ok(h) for h in hs if h is not None and is_obj(h) and has(h, "_binnings")])


def same_hist(h0, h1, stats=True, dtype=True):
    """every observable of the histogram is unchanged (binning caches excepted).
    dtype=False: the values are unchanged but the dtype may have been promoted losslessly (allowed on refusing paths)."""
    b0, b1 = attr(h0, "_binnings"), attr(h1, "_binnings")
    if len(b0) != len(b1) or typename(h0) != typename(h1):
        return False
    cs = [same_binning(x, y) for x, y in zip(b0, b1)]
    for f in ("_frequencies", "_errors2", "_missed", "_meta_data"):
        cs.append(same(attr(h0, f), attr(h1, f)))
    if dtype:
        cs.append(attr(h0, "_dtype") == attr(h1, "_dtype"))
    cs.append(attr(h0, "keep_missed") == attr(h1, "keep_missed"))
    if stats and has(h0, "_stats"):
        cs.append(has(h1, "_stats") and same(attr(h0, "_stats"), attr(h1, "_stats")))
    return And(*cs)
