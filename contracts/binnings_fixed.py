"""FixedWidthBinning: growth arithmetic (C04), accessors (C07), adapt (C05).  Unbounded: bin_count symbolic."""
from pyvc.vc import contract, ensures, raises
from pyvc.spec import *
from .common import *

K = FWB


def _fbe_cfgs():
    out = []
    for align in (True, False):
        for self_ire in (False, True):
            for arg in (None, True, False):
                out.append({"align": align, "self_ire": self_ire, "ire_arg": arg})
    return out


@contract(K + "._force_bin_existence_single", props=["C04", "C07"])
class _fbes:
    configs = staticmethod(_fbe_cfgs)

    def inputs(b):
        me = fixed_width(b, "B", count=None, adaptive=True, ire=b.cfg.self_ire, align=b.cfg.align)
        return dict(self=me, value=b.real("v"), includes_right_edge=b.cfg.ire_arg)

    @ensures("value_covered")      # C04: every finite value entered lies inside a bin
    def _(a, old, result):
        s = a.self
        ire = attr(old.self, "_includes_right_edge") if old.includes_right_edge is None else old.includes_right_edge
        t, c, w, sh, v = s._times_min, s._bin_count, s._bin_width, s._shift, old.value
        return And(c >= 1, grid(t, w, sh, 0) <= v,
                   Or(v < grid(t, w, sh, c), And(ire, v == grid(t, w, sh, c))))

    @ensures("grid_and_old_bins_kept")   # bins stay contiguous on the original grid; nothing recorded earlier is cut off
    def _(a, old, result):
        s, o = a.self, old.self
        return And(s._bin_width == o._bin_width,
                   Implies(Or(o._bin_count > 0, o._align), s._shift == o._shift),
                   Implies(o._bin_count > 0, And(s._times_min <= o._times_min,
                                                 s._times_min + s._bin_count >= o._times_min + o._bin_count)))

    @ensures("minimal_growth")     # span exactly from the lowest to the highest bin ever needed
    def _(a, old, result):
        s, o, v = a.self, old.self, old.value
        t, c, w, sh = s._times_min, s._bin_count, s._bin_width, s._shift
        ire = attr(o, "_includes_right_edge") if old.includes_right_edge is None else old.includes_right_edge
        return And(Implies(o._bin_count == 0, c == 1),
                   Implies(And(o._bin_count > 0, t < o._times_min), v < grid(t, w, sh, 1)),
                   Implies(And(o._bin_count > 0, t + c > o._times_min + o._bin_count), v >= grid(t, w, sh, c - 1)))

    @ensures("returned_shift")     # None: unchanged; (): was empty; int: old_min - new_min
    def _(a, old, result):
        s, o = a.self, old.self
        if result is None:
            return And(s._times_min == o._times_min, s._bin_count == o._bin_count, o._bin_count > 0)
        if isinstance(result, tuple):
            return o._bin_count == 0
        return And(o._bin_count > 0, result == o._times_min - s._times_min,
                   Or(s._times_min != o._times_min, s._bin_count != o._bin_count))

    @ensures("caches_invalidated")
    def _(a, old, result):
        s = a.self
        if result is None:
            return True
        return And(is_none(attr(s, "_bins")), is_none(attr(s, "_numpy_bins")))
