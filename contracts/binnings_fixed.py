"""FixedWidthBinning: growth arithmetic (C04), accessors (C07), adapt (C05).  Unbounded: bin_count symbolic."""
from pyvc.vc import contract, ensures, raises
from pyvc.spec import *
from .common import *

K = FWB


def _fbe_cfgs():
    out = []
    for align in (True, False):
        for self_ire in (False, True):
            for arg in (None, True, False):
                out.append({"align": align, "self_ire": self_ire, "ire_arg": arg})
    return out


@contract(K + "._force_bin_existence_single", props=["C04", "C07"])
class _fbes:
    configs = staticmethod(_fbe_cfgs)

    def inputs(b):
        me = fixed_width(b, "B", count=None, adaptive=True, ire=b.cfg.self_ire, align=b.cfg.align)
        return dict(self=me, value=b.real("v"), includes_right_edge=b.cfg.ire_arg)

    @ensures("value_covered")      # C04: every finite value entered lies inside a bin
    def _(a, old, result):
        s = a.self
        ire = attr(old.self, "_includes_right_edge") if old.includes_right_edge is None else old.includes_right_edge
        t, c, w, sh, v = s._times_min, s._bin_count, s._bin_width, s._shift, old.value
        return And(c >= 1, grid(t, w, sh, 0) <= v,
                   Or(v < grid(t, w, sh, c), And(ire, v == grid(t, w, sh, c))))

    @ensures("grid_and_old_bins_kept")   # bins stay contiguous on the original grid; nothing recorded earlier is cut off
    def _(a, old, result):
        s, o = a.self, old.self
        return And(s._bin_width == o._bin_width,
                   Implies(Or(o._bin_count > 0, o._align), s._shift == o._shift),
                   Implies(o._bin_count > 0, And(s._times_min <= o._times_min,
                                                 s._times_min + s._bin_count >= o._times_min + o._bin_count)))

    @ensures("minimal_growth")     # span exactly from the lowest to the highest bin ever needed
    def _(a, old, result):
        s, o, v = a.self, old.self, old.value
        t, c, w, sh = s._times_min, s._bin_count, s._bin_width, s._shift
        ire = attr(o, "_includes_right_edge") if old.includes_right_edge is None else old.includes_right_edge
        return And(Implies(o._bin_count == 0, c == 1),
                   Implies(And(o._bin_count > 0, t < o._times_min), v < grid(t, w, sh, 1)),
                   Implies(And(o._bin_count > 0, t + c > o._times_min + o._bin_count), v >= grid(t, w, sh, c - 1)))

    @ensures("returned_shift")     # None: unchanged; (): was empty; int: old_min - new_min
    def _(a, old, result):
        s, o = a.self, old.self
        if result is None:
            return And(s._times_min == o._times_min, s._bin_count == o._bin_count, o._bin_count > 0)
        if isinstance(result, tuple):
            return o._bin_count == 0
        return And(o._bin_count > 0, result == o._times_min - s._times_min,
                   Or(s._times_min != o._times_min, s._bin_count != o._bin_count))

    @ensures("caches_invalidated")
    def _(a, old, result):
        s = a.self
        if result is None:
            return True
        return And(is_none(attr(s, "_bins")), is_none(attr(s, "_numpy_bins")))


# ---------------------------------------------------------------------------------------------- accessors (unbounded bin count)

def _acc_inputs(b):
    me = fixed_width(b, "B", count=None, adaptive=b.cfg.adaptive if hasattr(b.cfg, "adaptive") else False)
    return dict(self=me)


def _prop_invoke(name):
    def invoke(I, fn, a, cfg):
        if I is not None:
            return I.getattr(a.self, name)
        return getattr(a.self, name)
    return invoke


@contract(K + ".first_edge", props=["C07", "C04"])
class _first_edge:
    inputs = staticmethod(_acc_inputs)
    invoke = staticmethod(_prop_invoke("first_edge"))

    @ensures("origin_plus_times_min_widths")
    def _(a, old, result):
        s = old.self
        return And(result == grid(s._times_min, s._bin_width, s._shift, 0), same_binning(old.self, a.self))


@contract(K + ".last_edge", props=["C07", "C04"])
class _last_edge:
    inputs = staticmethod(_acc_inputs)
    invoke = staticmethod(_prop_invoke("last_edge"))

    @ensures("first_edge_plus_count_widths")
    def _(a, old, result):
        s = old.self
        return And(result == grid(s._times_min, s._bin_width, s._shift, s._bin_count), same_binning(old.self, a.self))


@contract(K + ".numpy_bins", props=["C07", "C04"])
class _numpy_bins:
    inputs = staticmethod(_acc_inputs)
    invoke = staticmethod(_prop_invoke("numpy_bins"))

    @ensures("every_edge_is_on_the_grid")
    def _(a, old, result):
        s = old.self
        c = s._bin_count
        frame = And(s._bin_count == a.self._bin_count, s._times_min == a.self._times_min)
        n0 = shape_of(result)[0]
        if isinstance(n0, int) and n0 == 0:      # the empty binning (count == 0 on this path)
            return And(c == 0, frame)
        return And(c > 0, length(result) == c + 1,
                   forall(0, c + 1, lambda i: result[i] == grid(s._times_min, s._bin_width, s._shift, i)), frame)


@contract(K + ".bin_count", props=["C07"])
class _bin_count:
    inputs = staticmethod(_acc_inputs)
    invoke = staticmethod(_prop_invoke("bin_count"))

    @ensures("stored_count")
    def _(a, old, result):
        return result == old.self._bin_count


@contract(K + ".copy", props=["C07", "C12"])
class _fw_copy:
    def configs():
        return [{"adaptive": False, "empty": False}, {"adaptive": True, "empty": False}, {"adaptive": True, "empty": True}]

    def inputs(b):
        if b.cfg.empty:
            return dict(self=fixed_width(b, "B", count=0, adaptive=b.cfg.adaptive))
        me = fixed_width(b, "B", count=None, adaptive=b.cfg.adaptive)
        b.assume(me._bin_count > 0)
        return dict(self=me)

    @ensures("same_class_same_grid_fresh_object")
    def _(a, old, result):
        return And(result is not a.self, same_binning(old.self, result), same_binning(old.self, a.self))


@contract(K + ".__init__", props=["C07"])
class _fw_init:
    def configs():
        out = []
        for minkind in ("none", "min", "times_min", "shift"):
            for count in ("zero", "pos", "neg"):
                out.append({"minkind": minkind, "count": count, "adaptive": False, "ire": False})
        out.append({"minkind": "times_min", "count": "pos", "adaptive": True, "ire": False})
        out.append({"minkind": "times_min", "count": "pos", "adaptive": True, "ire": True})
        return out

    def inputs(b):
        c = b.cfg
        w = b.real("w")
        n = {"zero": 0, "pos": b.int("n"), "neg": b.int("n")}[c.count]
        if c.count == "pos":
            b.assume(n > 0)
        if c.count == "neg":
            b.assume(n < 0)
        kw = dict(self=b.obj(K), bin_width=w, bin_count=n, adaptive=c.adaptive, includes_right_edge=c.ire)
        if c.minkind == "min":
            kw["min"] = b.real("m")
        elif c.minkind == "times_min":
            kw["bin_times_min"] = b.int("t")
        elif c.minkind == "shift":
            kw["bin_shift"] = b.real("s")
            kw["bin_times_min"] = b.int("t")
        return kw

    @ensures("well_formed_grid")
    def _(a, old, result):
        s = a.self
        cs = [s._bin_width == old.bin_width, s._bin_width > 0, s._bin_count == old.bin_count, s._bin_count >= 0,
              is_none(attr(s, "_bins")), is_none(attr(s, "_numpy_bins"))]
        if hasattr(old, "min"):
            # the first edge is exactly the requested minimum: min = times_min * width + shift, 0 <= shift < width
            cs += [grid(s._times_min, s._bin_width, s._shift, 0) == old.min, s._shift >= 0, s._shift < s._bin_width]
        elif hasattr(old, "bin_times_min"):
            cs += [s._times_min == old.bin_times_min]
        return And(*cs)

    @raises(ValueError, "invalid_specifications_refused")
    def _(o):
        has_min = hasattr(o, "min")
        has_t = hasattr(o, "bin_times_min") or hasattr(o, "bin_shift")
        return Or(o.bin_width <= 0, o.bin_count < 0, has_min and has_t, And(o.bin_count == 0, has_min or hasattr(o, "bin_times_min")),
                  o.adaptive and o.includes_right_edge)


@contract(K + "._force_new_min_max", props=["C05", "C04"])
class _fnmm:
    bounded = True
    bound_note = "_force_new_min_max / _adapt: bin counts <= 3 (the returned bin map is a sequence of that length); grid positions symbolic"

    def configs():
        return [{"c": c} for c in (1, 2, 3)]

    def inputs(b):
        me = fixed_width(b, "B", count=b.cfg.c, adaptive=True)
        nmin, nmax = b.int("new_min"), b.int("new_max")
        return dict(self=me, new_min=nmin, new_max=nmax)

    @ensures("grows_to_cover_both_and_maps_old_bins_by_a_shift")
    def _(a, old, result):
        s, o = a.self, old.self
        t0, c0 = o._times_min, o._bin_count
        lo = fmin(t0, old.new_min)
        hi = fmax(t0 + c0, old.new_max)
        cs = [s._times_min == lo, s._times_min + s._bin_count == hi, s._bin_width == o._bin_width, s._shift == o._shift]
        if result is None:
            cs += [lo == t0, hi == t0 + c0]
        else:
            items = list(result.items if hasattr(result, "items") and not isinstance(result, dict) else result)
            cs.append(len(items) == c0)
            for i, (old_i, new_i) in enumerate(items):
                cs += [old_i == i, new_i == i + (t0 - s._times_min)]
            cs.append(Or(lo != t0, hi != t0 + c0))
        return And(*cs)


@contract(K + "._adapt", props=["C05"])
class _adapt:
    bounded = True
    bound_note = "_force_new_min_max / _adapt: bin counts <= 3 (the returned bin map is a sequence of that length); grid positions symbolic"

    def configs():
        return [{"c1": a, "c2": b_} for a in (0, 1, 2) for b_ in (0, 1, 2)]

    def inputs(b):
        me = fixed_width(b, "B", count=b.cfg.c1, adaptive=True)
        other = b.obj(K, _consecutive=None, _bins=None, _numpy_bins=None, _includes_right_edge=False, _adaptive=True,
                      _bin_width=me._bin_width, _align=True, _bin_count=b.cfg.c2, _times_min=(b.int("O.t") if b.cfg.c2 else None), _shift=me._shift)
        return dict(self=me, other=other)

    @ensures("union_of_both_ranges_on_the_common_grid")
    def _(a, old, result):
        s, o, p = a.self, old.self, old.other
        cs = [s._bin_width == o._bin_width, s._shift == o._shift, same_binning(old.other, a.other)]
        c1, c2 = o._bin_count, p._bin_count
        if c2 == 0:
            cs += [c1 == 0 or s._times_min == o._times_min, s._bin_count == c1]
        elif c1 == 0:
            cs += [s._times_min == p._times_min, s._bin_count == c2]
        else:
            lo, hi = fmin(o._times_min, p._times_min), fmax(o._times_min + c1, p._times_min + c2)
            cs += [s._times_min == lo, s._times_min + s._bin_count == hi]
            m1, m2 = result
            for m, (t_src, c_src) in ((m1, (o._times_min, c1)), (m2, (p._times_min, c2))):
                if m is None:
                    cs += [t_src == lo, t_src + c_src == hi]
                else:
                    items = list(m.items) if hasattr(m, "items") and not isinstance(m, dict) else list(m)
                    cs.append(len(items) == c_src)
                    for i, (oi, ni) in enumerate(items):
                        cs += [oi == i, ni == i + (t_src - lo)]
        return And(*cs)


# ---------------------------------------------------------------------------------------------- rounding (C04: "decimal literals such as 1.7 with width 0.1")

@contract(K + "._force_bin_existence_single", props=["C04", "C07"], name=K + "._force_bin_existence_single[machine floats]")
class _fbes_fp:
    """The coverage clause on machine floats: after the call the value is >= the first edge and < the last edge *as the
    binning itself computes them* (first_edge / last_edge).  In mode R this is implied by the contract above; the decimal
    cross-check evaluates it bit-for-bit on the real code for inputs that are not exactly representable."""
    bounded = True
    bound_note = "machine-float coverage: cross-check on the real code with decimal-literal inputs (|v| <= 20, widths k/10..k/1000); not a proof"
    fp_exact = True

    def configs():
        return [{"count": c, "align": al} for c in (0, 1, 3) for al in (True,)]

    def inputs(b):
        me = fixed_width(b, "B", count=b.cfg.count, adaptive=True, align=b.cfg.align)
        return dict(self=me, value=b.real("v"))

    def invoke(I, fn, a, cfg):
        if I is not None:
            I.call(fn, [a.self, a.value], {})
            return (I.getattr(a.self, "first_edge"), I.getattr(a.self, "last_edge"))
        fn(a.self, a.value)
        return (a.self.first_edge, a.self.last_edge)

    @ensures("value_inside_the_edges_the_binning_reports")
    def _(a, old, result):
        first, last = result
        return And(first <= old.value, old.value < last)
