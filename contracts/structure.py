"""C09 / C10 / C11 / C12 / C16: merging, indexing, projections, copies, geometry (bounded extents)."""
import numpy as np
from pyvc.vc import contract, ensures, raises
from pyvc.spec import *
from .common import *
from .arith import F, E, M, mk_hist, independent
from .fill import dtype_consistent

HB = "physt.histogram_base:HistogramBase"
BOUND = "structure: 1D with m<=3 bins, ND with shape up to (2,2,2); contents and edges symbolic"


def run_bins(bins, amount):
    m = len(bins)
    out = []
    for k in range(0, m, amount):
        out.append((bins[k][0], bins[min(k + amount, m) - 1][1]))
    return out


def runs_consecutive(bins, amount):
    cs = []
    for k in range(len(bins) - 1):
        if (k + 1) % amount != 0:          # k and k+1 are in the same run
            cs.append(bins[k][1] == bins[k + 1][0])
    return And(*cs) if cs else True


# ---------------------------------------------------------------------------------------------- merge_bins (C10)

def _merge_cfgs():
    out = []
    for m in (2, 3):
        for amount in (1, 2, 3):
            for inplace in (False, True):
                out.append({"m": m, "amount": amount, "inplace": inplace, "dtype": "int64"})
    out.append({"m": 3, "amount": 2, "inplace": False, "dtype": "float64"})
    return out


@contract(HB + ".merge_bins", props=["C10", "C12", "C18"], name=HB + ".merge_bins[1D amount]")
class _merge1d:
    bounded = True
    bound_note = BOUND
    configs = staticmethod(_merge_cfgs)

    def thorough_extra():
        return [{"m": 4, "amount": 2, "inplace": True, "dtype": "int64"}, {"m": 5, "amount": 2, "inplace": False, "dtype": "int64"},
                {"m": 5, "amount": 3, "inplace": True, "dtype": "float64"}, {"m": 4, "amount": 4, "inplace": False, "dtype": "int64"}]

    def inputs(b):
        c = b.cfg
        return dict(self=mk_hist(b, "h", 1, c.m, "gapped", c.dtype), amount=c.amount, inplace=c.inplace)

    @ensures("runs_are_merged_contents_summed")
    def _(a, old, result):
        bins = bins_of(attr(old.self, "_binnings")[0])
        am = old.amount
        nb = bins_of(attr(result, "_binnings")[0])
        want = run_bins(bins, am)
        f0, e0 = F(old.self), E(old.self)
        wf = [sumr(f0, k, k + am) for k in range(0, len(bins), am)]
        we = [sumr(e0, k, k + am) for k in range(0, len(bins), am)]
        return And(len(nb) == len(want), same([x for p in nb for x in p], [x for p in want for x in p]),
                   same(F(result), wf), same(E(result), we), same(M(result), M(old.self)),
                   total(F(result)) == total(f0))

    @ensures("inplace_or_fresh")
    def _(a, old, result):
        if old.inplace:
            return result is a.self
        return And(result is not a.self, same_hist(old.self, a.self), independent(result, a.self))

    @raises(ValueError, "merging_across_a_gap_is_refused", state=lambda a, old: same_hist(old.self, a.self))
    def _(o):
        return Not(runs_consecutive(bins_of(attr(o.self, "_binnings")[0]), o.amount))


@contract(HB + ".merge_bins", props=["C10"], name=HB + ".merge_bins[non-integral amount]")
class _merge_bad_amount:
    bounded = True
    bound_note = BOUND

    def inputs(b):
        return dict(self=mk_hist(b, "h", 1, 2, "fixed", "int64"), amount=1.5)

    @raises(ValueError, "non_integral_amount_refused", state=lambda a, old: same_hist(old.self, a.self))
    def _(o):
        return True


def _merge2d_cfgs():
    return [{"shape": (2, 2), "axis": ax, "amount": 2, "inplace": ip} for ax in (0, 1, None) for ip in (False, True)] + \
           [{"shape": (3, 1), "axis": 0, "amount": 2, "inplace": False}]


@contract(HB + ".merge_bins", props=["C10", "C12"], name=HB + ".merge_bins[2D amount]")
class _merge2d:
    bounded = True
    bound_note = BOUND
    configs = staticmethod(_merge2d_cfgs)

    def inputs(b):
        c = b.cfg
        binnings = [make_binning(b, f"B{i}", "static", s) for i, s in enumerate(c.shape)]
        return dict(self=histnd(b, "h", binnings, c.shape), amount=c.amount, axis=c.axis, inplace=c.inplace)

    @ensures("runs_merged_on_the_chosen_axes_only")
    def _(a, old, result):
        shape = shape_of(attr(old.self, "_frequencies"))
        am = old.amount
        axes = [old.axis] if old.axis is not None else [0, 1]
        f0 = aslist(attr(old.self, "_frequencies"))
        e0 = aslist(attr(old.self, "_errors2"))
        cs = []
        for ax in (0, 1):
            ob = bins_of(attr(old.self, "_binnings")[ax])
            nb = bins_of(attr(result, "_binnings")[ax])
            want = run_bins(ob, am) if ax in axes else ob
            cs.append(len(nb) == len(want))
            if len(nb) == len(want):
                cs.append(same([x for p in nb for x in p], [x for p in want for x in p]))

        def grp(n, ax):
            return [list(range(k, min(k + am, n))) for k in range(0, n, am)] if ax in axes else [[k] for k in range(n)]
        g0, g1 = grp(shape[0], 0), grp(shape[1], 1)
        wf = [[0] * len(g1) for _ in g0]
        we = [[0] * len(g1) for _ in g0]
        for i, gi in enumerate(g0):
            for j, gj in enumerate(g1):
                for x in gi:
                    for y in gj:
                        wf[i][j] = wf[i][j] + f0[x][y]
                        we[i][j] = we[i][j] + e0[x][y]
        return And(*cs, shape_of(attr(result, "_frequencies")) == (len(g0), len(g1)),
                   same(aslist(attr(result, "_frequencies")), wf), same(aslist(attr(result, "_errors2")), we),
                   same(M(result), M(old.self)))

    @ensures("inplace_or_fresh")
    def _(a, old, result):
        if old.inplace:
            return result is a.self
        return And(result is not a.self, same_hist(old.self, a.self), independent(result, a.self))


# ---------------------------------------------------------------------------------------------- 1D indexing (C11)

H1K = "physt.histogram1d:Histogram1D"


def _slice_cfgs():
    out = []
    for start in (None, 0, 1, -1, 2):
        for stop in (None, 1, 2, 3, -1, 5):
            out.append({"m": 3, "start": start, "stop": stop, "step": None})
    out.append({"m": 3, "start": 0, "stop": 2, "step": 1})
    out.append({"m": 3, "start": 2, "stop": 0, "step": -1})
    # the same on a histogram whose binning has been looked at before (filled caches must not leak into the selection)
    out.append({"m": 3, "start": 1, "stop": None, "step": None, "warm": True})
    out.append({"m": 3, "start": 0, "stop": 2, "step": None, "warm": True})
    out.append({"m": 3, "start": 0, "stop": 2, "step": None, "warm": True, "kind": "static"})
    out.append({"m": 3, "start": 1, "stop": 3, "step": None, "warm": True, "kind": "numpy"})
    return out


@contract(H1K + ".__getitem__", props=["C11", "C12"], name=H1K + ".__getitem__[slice]")
class _getitem_slice:
    bounded = True
    bound_note = BOUND
    configs = staticmethod(_slice_cfgs)

    def thorough_extra():
        return [{"m": 4, "start": s, "stop": e, "step": None} for s in (None, 1, -3, 3) for e in (None, 2, 4, -1)]

    def inputs(b):
        c = b.cfg
        return dict(self=mk_hist(b, "h", 1, c.m, getattr(c, "kind", "gapped"), "int64", meta={"name": "nm", "axis_names": ("ax",)}),
                    index=slice(c.start, c.stop, c.step))

    def invoke(I, fn, a, cfg):
        if I is not None:
            return I.call(fn, [a.self, a.index], {})
        return fn(a.self, a.index)

    @ensures("bins_contents_errors_are_the_sliced_ones")
    def _(a, old, result):
        bins = bins_of(attr(old.self, "_binnings")[0])
        idx = list(range(len(bins)))[old.index]
        nb = bins_of(attr(result, "_binnings")[0])
        f0, e0 = F(old.self), E(old.self)
        return And(len(nb) == len(idx), same([x for p in nb for x in p], [x for k in idx for x in bins[k]]),
                   same(F(result), [f0[k] for k in idx]), same(E(result), [e0[k] for k in idx]),
                   attr(result, "_dtype") == attr(old.self, "_dtype"),
                   attr(result, "_meta_data").get("name") == "nm", tuple(attr(result, "_meta_data").get("axis_names")) == ("ax",))

    @ensures("cut_off_contents_go_to_underflow_overflow")
    def _(a, old, result):
        m = len(F(old.self))
        idx = list(range(m))[old.index]
        if not idx:
            return True
        lo, hi = idx[0], idx[-1] + 1
        f0, m0, m1 = F(old.self), M(old.self), M(result)
        return And(m1[0] == m0[0] + sumr(f0, 0, lo), m1[1] == m0[1] + sumr(f0, hi, m),
                   total(F(result)) + m1[0] + m1[1] == total(f0) + m0[0] + m0[1])

    @ensures("source_unchanged_result_independent")
    def _(a, old, result):
        return And(same_hist(old.self, a.self), result is not a.self, independent(result, a.self))

    @ensures("both_histograms_are_well_formed_every_view_of_the_selected_bins_agrees")
    def _(a, old, result):
        return well_formed(a.self, result)

    @raises(IndexError, "reversed_slices_are_refused", state=lambda a, old: same_hist(old.self, a.self))
    def _(o):
        return o.index.step is not None and o.index.step < 0



@contract(H1K + ".__getitem__", props=["C11"], name=H1K + ".__getitem__[int]")
class _getitem_int:
    bounded = True
    bound_note = BOUND

    def configs():
        return [{"m": 3}, {"m": 1}]

    def inputs(b):
        return dict(self=mk_hist(b, "h", 1, b.cfg.m, "gapped", "int64"), index=b.int("i"))

    def invoke(I, fn, a, cfg):
        if I is not None:
            return I.call(fn, [a.self, a.index], {})
        return fn(a.self, a.index)

    @ensures("edges_and_content_of_that_bin")
    def _(a, old, result):
        bins = bins_of(attr(old.self, "_binnings")[0])
        m = len(bins)
        i = old.index
        edges, content = result
        f0 = F(old.self)
        return And(*[Implies(Or(i == k, i == k - m), And(same(elems(edges), list(bins[k])), content == f0[k])) for k in range(m)],
                   same_hist(old.self, a.self))

    @raises(IndexError, "out_of_range_index_refused", state=lambda a, old: same_hist(old.self, a.self))
    def _(o):
        m = len(F(o.self))
        return Or(o.index >= m, o.index < -m)


def _mask_cfgs():
    return [{"m": 3, "kind": "mask"}, {"m": 3, "kind": "index", "idx": [0, 2]}, {"m": 3, "kind": "index", "idx": [1]},
            {"m": 3, "kind": "badmask"}, {"m": 3, "kind": "index", "idx": [2, 0]},
            {"m": 3, "kind": "mask", "warm": True}, {"m": 3, "kind": "index", "idx": [0, 2], "warm": True}]


@contract(H1K + ".__getitem__", props=["C11"], name=H1K + ".__getitem__[mask / index array]")
class _getitem_mask:
    bounded = True
    bound_note = BOUND
    configs = staticmethod(_mask_cfgs)

    def inputs(b):
        c = b.cfg
        h = mk_hist(b, "h", 1, c.m, "gapped", "int64")
        if c.kind == "mask":
            idx = b.array("mask", (c.m,), "bool")
        elif c.kind == "badmask":
            idx = b.array("mask", (c.m + 1,), "bool")
        else:
            idx = b.carray(c.idx, "int64")
        return dict(self=h, index=idx)

    def invoke(I, fn, a, cfg):
        if I is not None:
            return I.call(fn, [a.self, a.index], {})
        return fn(a.self, a.index)

    @ensures("selected_bins_in_increasing_order")
    def _(a, old, result):
        bins = bins_of(attr(old.self, "_binnings")[0])
        f0, e0 = F(old.self), E(old.self)
        sel = elems(old.index)
        nb = bins_of(attr(result, "_binnings")[0])
        if dtype_of(old.index).kind == "b":
            # position of bin k in the result = number of selected bins before it
            cs = [len(nb) == count(sel)]
            f1, e1 = F(result), E(result)
            for k in range(len(bins)):
                pos = count(sel[:k])
                for j in range(len(nb)):
                    cs.append(Implies(And(sel[k], pos == j), And(f1[j] == f0[k], e1[j] == e0[k], nb[j][0] == bins[k][0], nb[j][1] == bins[k][1])))
            return And(*cs)
        return And(len(nb) == len(sel), same([x for p in nb for x in p], [x for k in sel for x in bins[k]]),
                   same(F(result), [f0[k] for k in sel]), same(E(result), [e0[k] for k in sel]),
                   rising(nb))

    @ensures("under_overflow_unknown_source_unchanged")
    def _(a, old, result):
        m1 = M(result)
        return And(Or(not result.keep_missed, And(isnan(m1[0]), isnan(m1[1]))), same_hist(old.self, a.self))

    @ensures("both_histograms_are_well_formed_every_view_of_the_selected_bins_agrees")
    def _(a, old, result):
        return well_formed(a.self, result)

    @raises(IndexError, "wrongly_sized_mask_refused", state=lambda a, old: same_hist(old.self, a.self))
    def _(o):
        return dtype_of(o.index).kind == "b" and shape_of(o.index) != (len(F(o.self)),)

    known = {
        # F18b: an unsorted index array yields a histogram with non-rising bins instead of being taken in increasing order
        "selected_bins_in_increasing_order": [("F18b", lambda o: dtype_of(o.index).kind != "b" and elems(o.index) != sorted(elems(o.index)))],
        "raise:ValueError": [("F18b", lambda o: dtype_of(o.index).kind != "b" and elems(o.index) != sorted(elems(o.index)))],
    }


# ---------------------------------------------------------------------------------------------- copy (C12)

def _copy_cfgs():
    return [{"dim": d, "kind": k, "incl": i} for d in (1, 2) for k in ("fixed", "gapped", "numpy") for i in (True, False)] + \
           [{"dim": d, "kind": "fixed", "incl": True, "keep_missed": False} for d in (1, 2)]      # histograms that do not keep missed values


@contract(HB + ".copy", props=["C12", "C14"], name="Histogram.copy")
class _copy:
    bounded = True
    bound_note = BOUND
    configs = staticmethod(_copy_cfgs)

    def inputs(b):
        c = b.cfg
        return dict(self=mk_hist(b, "h", c.dim, 2, c.kind, "int64", keep_missed=getattr(c, "keep_missed", True)), include_frequencies=c.incl)

    def invoke(I, fn, a, cfg):
        if I is not None:
            return I.call(I.getattr(a.self, "copy"), [], {"include_frequencies": a.include_frequencies})
        return a.self.copy(include_frequencies=a.include_frequencies)

    @ensures("equal_and_independent")
    def _(a, old, result):
        cs = [typename(result) == typename(old.self), independent(result, a.self), same_hist(old.self, a.self),
              attr(result, "_dtype") == attr(old.self, "_dtype"), same(attr(result, "_meta_data"), attr(old.self, "_meta_data")),
              *[same_binning(x, y) for x, y in zip(attr(old.self, "_binnings"), attr(result, "_binnings"))]]
        if old.include_frequencies:
            cs.append(same_hist(old.self, result))
        else:
            cs += [same(F(result), [0] * len(F(result))), same(E(result), [0] * len(F(result))), same(M(result), [0] * len(M(result))),
                   shape_of(attr(result, "_frequencies")) == shape_of(attr(old.self, "_frequencies"))]
        return And(*cs)

    @ensures("empty_copy_is_fully_usable")      # every attribute the mutators read is there
    def _(a, old, result):
        if has(old.self, "_stats"):
            return has(result, "_stats")
        return True

