"""C02 / C03 / C09 / C11: N-dimensional construction, filling, projections, selection (bounded extents)."""
import itertools
import numpy as np
from pyvc.vc import contract, ensures, raises
from pyvc.spec import *
from .common import *
from .arith import F, E, M, independent
from .fill import dtype_consistent

HNDK = "physt.histogram_nd:HistogramND"
BOUND = "ND: dimension 2..3, shapes up to (2,2,2), up to 2 rows of data; contents, edges, weights symbolic"


def cell_pred(binnings, cell, row):
    """row lies in cell: per axis left <= x < right, last bin closed iff the binning includes its right edge"""
    cs = []
    for ax, k in enumerate(cell):
        bs = bins_of(binnings[ax])
        cs.append(inbin(bs, k, row[ax], closed_last=attr(binnings[ax], "_includes_right_edge")))
    return And(*cs)


def nd_binnings(b, shape, kinds, ire=None):
    out = []
    for i, (s, k) in enumerate(zip(shape, kinds)):
        kw = {}
        if ire is not None:
            kw["ire"] = ire[i]
        out.append(make_binning(b, f"B{i}", k, s, **kw))
    return out


def rows_of(data):
    return aslist(data)


def row_ok(row):
    return And(*[Not(isnan(x)) for x in row])


def _h_cfgs():
    out = []
    for n in (0, 1, 2):
        for shape, kinds in (((1, 2), ("static", "gapped")), ((2, 1), ("fixed", "numpy"))):
            for wk in (None, "float64"):
                out.append({"n": n, "shape": shape, "kinds": kinds, "weights": wk, "nan": False})
    out.append({"n": 1, "shape": (1, 1, 2), "kinds": ("static", "fixed", "gapped"), "weights": None, "nan": False})
    out.append({"n": 2, "shape": (1, 2), "kinds": ("static", "static"), "weights": "float64", "nan": True})
    # right-open axes whose edge caches were filled by an earlier read (a value exactly on the last edge is outside)
    out.append({"n": 1, "shape": (2, 1), "kinds": ("fixed", "static"), "weights": None, "nan": False, "ire": (False, False), "warm": True})
    out.append({"n": 1, "shape": (1, 2), "kinds": ("static", "numpy"), "weights": "float64", "nan": False, "ire": (False, True), "warm": True})
    return out


@contract("physt._facade:h", props=["C02"], name="physt._facade:h[binning objects]")
class _h:
    bounded = True
    bound_note = BOUND
    configs = staticmethod(_h_cfgs)

    def thorough_extra():
        return [{"n": 3, "shape": (2, 2), "kinds": ("gapped", "fixed"), "weights": "float64", "nan": False},
                {"n": 3, "shape": (2, 3), "kinds": ("static", "numpy"), "weights": None, "nan": False},
                {"n": 2, "shape": (2, 1, 2), "kinds": ("gapped", "fixed", "numpy"), "weights": "float64", "nan": False}]

    def inputs(b):
        c = b.cfg
        d = len(c.shape)
        bins = nd_binnings(b, c.shape, c.kinds, getattr(c, "ire", None))
        if getattr(c, "warm", False):
            for bn in bins:
                b.touch(bn, "numpy_bins")
        kw = dict(data=b.array("d", (c.n, d), nan=c.nan), bins=bins)
        if c.weights:
            kw["weights"] = b.array("w", (c.n,), c.weights)      # weights of ANY sign: a negative cell sum is refused (below)
        return kw

    def cell_sums(o):
        rows = rows_of(o.data)
        w = elems(o.weights) if hasattr(o, "weights") else [1] * len(rows)
        shape = tuple(len(bins_of(x)) for x in o.bins)
        out = []
        for cell in itertools.product(*[range(s) for s in shape]):
            sf = 0
            for r, wt in zip(rows, w):
                sf = sf + If(And(row_ok(r), cell_pred(o.bins, cell, r)), wt, 0)
            out.append(sf)
        return out

    @raises(ValueError, "negative_cell_content_refused")
    def _(o):
        return Or(*[s < 0 for s in _h.cell_sums(o)]) if hasattr(o, "weights") else False

    @ensures("each_cell_holds_the_weight_of_its_rows")
    def _(a, old, result):
        rows = rows_of(old.data)
        w = elems(old.weights) if hasattr(old, "weights") else [1] * len(rows)
        binnings = old.bins
        shape = tuple(len(bins_of(x)) for x in binnings)
        f, e = F(result), E(result)
        cs = [shape_of(attr(result, "_frequencies")) == shape]
        for pos, cell in enumerate(itertools.product(*[range(s) for s in shape])):
            sf, se = 0, 0
            for r, wt in zip(rows, w):
                ok = And(row_ok(r), cell_pred(binnings, cell, r))
                sf = sf + If(ok, wt, 0)
                se = se + If(ok, wt * wt, 0)
            cs.append(f[pos] == sf)
            cs.append(e[pos] == se)
        return And(*cs)

    @ensures("missed_is_the_weight_outside_every_cell")
    def _(a, old, result):
        rows = rows_of(old.data)
        w = elems(old.weights) if hasattr(old, "weights") else [1] * len(rows)
        tot = 0
        for r, wt in zip(rows, w):
            tot = tot + If(row_ok(r), wt, 0)
        return total(F(result)) + M(result)[0] == tot

    @ensures("class_by_dimension")
    def _(a, old, result):
        return typename(result) == ("Histogram2D" if len(old.bins) == 2 else "HistogramND")



@contract("physt._facade:h", props=["C02", "C17"], name="physt._facade:h[rows with infinite coordinates]")
class _h_inf:
    """a row with infinite coordinates (also of both signs) is an entry like any other: it lies in no cell and is counted as missed
    with its weight -- it is not "missing data" and must not be dropped with the NaN rows.  Arithmetic on infinities is outside the
    symbolic value model, so this contract is decided by the cross-check on the real code only (bounded stand-in)."""
    bounded = True
    bound_note = "h with infinite coordinates: decided by the cross-check on the real code only; 3 rows, 2 x 2 cells"
    standin = True

    def configs():
        return [{"signs": (1.0, -1.0), "weights": True, "dropna": True}, {"signs": (-1.0, -1.0), "weights": False, "dropna": True},
                {"signs": (1.0, -1.0), "weights": False, "dropna": False}]

    def inputs(b):
        c = b.cfg
        bins = nd_binnings(b, (2, 2), ("fixed", "static"))
        data = b.array("d", (3, 2))
        for col, sg in enumerate(c.signs):
            if isinstance(data, np.ndarray):
                data[1, col] = sg * float("inf")
            else:
                data.set((1, col), sg * float("inf"))
        kw = dict(data=data, bins=bins, dropna=c.dropna)
        if c.weights:
            kw["weights"] = b.array("w", (3,))
            nonneg(b, kw["weights"])
        return kw

    @ensures("rows_with_infinite_coordinates_are_counted_as_missed")
    def _(a, old, result):
        rows = rows_of(old.data)
        w = elems(old.weights) if hasattr(old, "weights") else [1] * len(rows)
        tot = 0
        for wt in w:
            tot = tot + wt
        inside = 0
        for k, (r, wt) in enumerate(zip(rows, w)):
            if k != 1:
                inside = inside + If(Or(*[cell_pred(old.bins, cell, r) for cell in itertools.product(range(2), range(2))]), wt, 0)
        return And(close(total(F(result)) + M(result)[0], tot), close(total(F(result)), inside))


# ---------------------------------------------------------------------------------------------- find_bin / fill / fill_n

def _nd_fill_cfgs():
    out = []
    for shape, kinds, ire in (((1, 2), ("static", "gapped"), (True, True)), ((2, 1), ("fixed", "numpy"), (False, True))):
        for dtype in ("int64", "float64"):
            for wk in ("default", "float"):
                for km in (True, False):
                    out.append({"shape": shape, "kinds": kinds, "ire": ire, "dtype": dtype, "wk": wk, "keep_missed": km})
    return out


def nd_index_ok(binnings, value, result):
    """find_bin: the cell containing the point (last edge of an axis closed iff its binning says so), else None"""
    shape = tuple(len(bins_of(x)) for x in binnings)
    inside_any = Or(*[cell_pred(binnings, cell, value) for cell in itertools.product(*[range(s) for s in shape])])
    if result is None:
        return Not(inside_any)
    return And(inside_any, *[Implies(cell_pred(binnings, cell, value), And(*[result[i] == cell[i] for i in range(len(shape))]))
                             for cell in itertools.product(*[range(s) for s in shape])])


@contract(HNDK + ".find_bin", props=["C03", "C15"])
class _nd_find_bin:
    bounded = True
    bound_note = BOUND

    def configs():
        return [{"shape": (1, 2), "kinds": ("static", "gapped"), "ire": (True, True)},
                {"shape": (2, 1), "kinds": ("fixed", "numpy"), "ire": (False, True)},
                {"shape": (1, 1, 2), "kinds": ("static", "fixed", "numpy"), "ire": (True, False, False)}]

    def inputs(b):
        c = b.cfg
        bins = nd_binnings(b, c.shape, c.kinds, c.ire)
        return dict(self=histnd(b, "h", bins, c.shape), value=b.array("v", (len(c.shape),)))

    @ensures("index_tuple_of_the_containing_cell")
    def _(a, old, result):
        return nd_index_ok(attr(old.self, "_binnings"), elems(old.value), result)

    @ensures("nothing_changes")
    def _(a, old, result):
        return same_hist(old.self, a.self)

    known = {"index_tuple_of_the_containing_cell": [("F5", lambda o: on_open_last_edge(attr(o.self, "_binnings"), elems(o.value)))]}


def on_open_last_edge(binnings, value):
    """some coordinate sits exactly on the last edge of an axis whose binning does not include the right edge"""
    cs = []
    for ax, bn in enumerate(binnings):
        if not attr(bn, "_includes_right_edge"):
            cs.append(value[ax] == bins_of(bn)[-1][1])
    return Or(*cs) if cs else False


@contract(HNDK + ".fill", props=["C03", "C13", "C18"])
class _nd_fill:
    bounded = True
    bound_note = BOUND
    configs = staticmethod(_nd_fill_cfgs)

    def inputs(b):
        c = b.cfg
        bins = nd_binnings(b, c.shape, c.kinds, c.ire)
        kw = dict(self=histnd(b, "h", bins, c.shape, dtype=c.dtype, keep_missed=c.keep_missed), value=b.array("v", (len(c.shape),)))
        if c.wk == "float":
            kw["weight"] = b.real("w")
            b.assume(kw["weight"] >= 0)
        return kw

    @ensures("returns_the_cell_index")
    def _(a, old, result):
        return nd_index_ok(attr(old.self, "_binnings"), elems(old.value), result)

    @ensures("contents_errors_missed")
    def _(a, old, result):
        binnings = attr(old.self, "_binnings")
        shape = tuple(len(bins_of(x)) for x in binnings)
        v = elems(old.value)
        w = old.weight if hasattr(old, "weight") else 1
        f0, f1, e0, e1 = F(old.self), F(a.self), E(old.self), E(a.self)
        cs = []
        inside_any = False
        for pos, cell in enumerate(itertools.product(*[range(s) for s in shape])):
            ok = cell_pred(binnings, cell, v)
            inside_any = Or(inside_any, ok)
            cs.append(f1[pos] == f0[pos] + If(ok, w, 0))
            cs.append(e1[pos] == e0[pos] + If(ok, w * w, 0))
        m0, m1 = M(old.self)[0], M(a.self)[0]
        if old.self.keep_missed:
            cs.append(m1 == m0 + If(inside_any, 0, w))
        else:
            cs.append(m1 == m0)
        return And(*cs)

    @ensures("dtype_consistent_and_promoted")
    def _(a, old, result):
        want = "float64" if hasattr(old, "weight") else str(attr(old.self, "_dtype"))
        return And(dtype_consistent(a.self), str(attr(a.self, "_dtype")) == want)

    known = {"returns_the_cell_index": [("F5", lambda o: on_open_last_edge(attr(o.self, "_binnings"), elems(o.value)))],
             "contents_errors_missed": [("F5", lambda o: on_open_last_edge(attr(o.self, "_binnings"), elems(o.value)))]}


def _nd_filln_cfgs():
    out = []
    for n in (0, 1, 2):
        for wk in (None, "float64"):
            out.append({"n": n, "shape": (1, 2), "kinds": ("static", "gapped"), "ire": (True, True), "dtype": "float64" if wk else "int64",
                        "weights": wk, "nan": False})
    out.append({"n": 2, "shape": (2, 1), "kinds": ("fixed", "numpy"), "ire": (False, True), "dtype": "int64", "weights": None, "nan": False})
    out.append({"n": 2, "shape": (1, 2), "kinds": ("static", "static"), "ire": (True, True), "dtype": "float64", "weights": "float64", "nan": True})
    out.append({"n": 1, "shape": (1, 2), "kinds": ("static", "static"), "ire": (True, True), "dtype": "int64", "weights": None, "nan": True})
    # a row with an infinite coordinate is an entry like any other: it lies outside every bin and is counted as missed
    out.append({"n": 2, "shape": (1, 2), "kinds": ("static", "static"), "ire": (True, True), "dtype": "float64", "weights": "float64", "nan": False, "inf": 1.0})
    out.append({"n": 1, "shape": (1, 2), "kinds": ("static", "gapped"), "ire": (True, True), "dtype": "int64", "weights": None, "nan": False, "inf": -1.0})
    return out


def _put(arr, ix, v):
    if isinstance(arr, np.ndarray):
        arr[ix] = v
    else:
        arr.set(ix, v)


@contract(HNDK + ".fill_n", props=["C03", "C13", "C18"])
class _nd_fill_n:
    bounded = True
    bound_note = BOUND
    configs = staticmethod(_nd_filln_cfgs)

    def inputs(b):
        c = b.cfg
        bins = nd_binnings(b, c.shape, c.kinds, c.ire)
        kw = dict(self=histnd(b, "h", bins, c.shape, dtype=c.dtype), values=b.array("d", (c.n, len(c.shape)), nan=c.nan))
        if getattr(c, "inf", None):
            _put(kw["values"], (c.n - 1, 0), c.inf * float("inf"))
        if c.weights:
            kw["weights"] = b.array("w", (c.n,), c.weights)
            nonneg(b, kw["weights"])
        return kw

    @ensures("equals_folding_fill_over_the_rows")
    def _(a, old, result):
        binnings = attr(old.self, "_binnings")
        shape = tuple(len(bins_of(x)) for x in binnings)
        rows = rows_of(old.values)
        w = elems(old.weights) if hasattr(old, "weights") else [1] * len(rows)
        f0, f1, e0, e1 = F(old.self), F(a.self), E(old.self), E(a.self)
        cs = []
        inside = 0
        tot = 0
        for r, wt in zip(rows, w):
            tot = tot + If(row_ok(r), wt, 0)
        for pos, cell in enumerate(itertools.product(*[range(s) for s in shape])):
            sf, se = 0, 0
            for r, wt in zip(rows, w):
                ok = And(row_ok(r), cell_pred(binnings, cell, r))
                sf = sf + If(ok, wt, 0)
                se = se + If(ok, wt * wt, 0)
            inside = inside + sf
            cs.append(f1[pos] == f0[pos] + sf)
            cs.append(e1[pos] == e0[pos] + se)
        cs.append(M(a.self)[0] == M(old.self)[0] + (tot - inside))
        return And(*cs)

    @ensures("dtype_consistent")
    def _(a, old, result):
        return dtype_consistent(a.self)



# ---------------------------------------------------------------------------------------------- projections (C09)

def _proj_cfgs():
    out = []
    for axes in ((0,), (1,), ("x",), ("y",)):
        out.append({"shape": (2, 2), "axes": axes})
    for axes in ((0,), (2,), (0, 1), (1, 2), (0, 2), (2, 0), ("z", "x"), (1,)):
        out.append({"shape": (2, 1, 2), "axes": axes})
    out.append({"shape": (1, 2, 1, 2), "axes": (1, 3)})
    out.append({"shape": (1, 2, 1, 2), "axes": (3, 0, 1)})
    out.append({"shape": (2, 1, 2), "axes": ("z",), "names": ("", "", "z")})      # unnamed axes before the one addressed by name
    out.append({"shape": (2, 1, 2), "axes": ("y", 2), "names": ("", "y", "")})
    out.append({"shape": (2, 2), "axes": (0,), "dtype": "int16"})         # a narrow integer histogram: the marginal must not wrap
    out.append({"shape": (2, 1, 2), "axes": (0, 2), "dtype": "int16"})
    return out


NAMES = ("x", "y", "z", "t")


@contract(HNDK + ".projection", props=["C09", "C12", "C18"])       # C18: a projection that shared binnings would let a later fill of it break the parent
class _projection:
    bounded = True
    bound_note = "projection: dimension 2..4 (all shapes up to (2,2,2)/(1,2,1,2)), axis tuples enumerated; contents symbolic"

    def thorough_extra():
        return [{"shape": (2, 2, 2), "axes": ax} for ax in ((0,), (1,), (2,), (0, 1), (0, 2), (1, 2), (2, 1))] + \
               [{"shape": (2, 1, 2, 2), "axes": ax} for ax in ((0, 3), (3, 2, 0), (1,), (2, 3))] + [{"shape": (3, 2), "axes": (0,)}, {"shape": (2, 3), "axes": ("y",)}]
    configs = staticmethod(_proj_cfgs)

    def inputs(b):
        c = b.cfg
        d = len(c.shape)
        bins = nd_binnings(b, c.shape, ["static"] * d)
        meta = {"name": "nm", "axis_names": tuple(getattr(c, "names", NAMES[:d]))}
        return dict(self=histnd(b, "h", bins, c.shape, meta=meta, dtype=getattr(c, "dtype", "int64")), axes=tuple(c.axes))

    def invoke(I, fn, a, cfg):
        if I is not None:
            return I.call(fn, [a.self] + list(a.axes), {})
        return fn(a.self, *a.axes)

    @ensures("the_marginal_is_accumulated_in_numpys_default_accumulator_type_not_in_a_narrow_content_type")
    def _(a, old, result):
        wide = np.ones(1, attr(old.self, "_dtype")).sum().dtype
        return And(attr(result, "_dtype") == wide, dtype_of(attr(result, "_frequencies")) == wide, dtype_of(attr(result, "_errors2")) == wide)

    @ensures("marginal_contents_kept_axes_in_original_order")
    def _(a, old, result):
        shape = shape_of(attr(old.self, "_frequencies"))
        d = len(shape)
        names0 = tuple(attr(old.self, "_meta_data")["axis_names"])
        kept = sorted(names0.index(x) if isinstance(x, str) else x for x in old.axes)
        f0 = attr(old.self, "_frequencies")
        e0 = attr(old.self, "_errors2")
        wf, we = [], []
        for cell in itertools.product(*[range(shape[k]) for k in kept]):
            sf, se = 0, 0
            for full in itertools.product(*[range(s) for s in shape]):
                if all(full[k] == c for k, c in zip(kept, cell)):
                    sf = sf + f0[full]
                    se = se + e0[full]
            wf.append(sf)
            we.append(se)
        cs = [shape_of(attr(result, "_frequencies")) == tuple(shape[k] for k in kept), same(F(result), wf), same(E(result), we),
              total(F(result)) == total(F(old.self)),
              tuple(attr(result, "_meta_data")["axis_names"]) == tuple(names0[k] for k in kept),
              typename(result) == {1: "Histogram1D", 2: "Histogram2D"}.get(len(kept), "HistogramND")]
        for pos, k in enumerate(kept):
            cs.append(same_binning(attr(old.self, "_binnings")[k], attr(result, "_binnings")[pos]))
        return And(*cs)

    @ensures("parent_unchanged_child_independent")
    def _(a, old, result):
        return And(same_hist(old.self, a.self), independent(result, a.self))



@contract(HNDK + ".projection", props=["C09"], name=HNDK + ".projection[refusals]")
class _projection_refuse:
    bounded = True
    bound_note = BOUND

    def configs():
        return [{"axes": ax, "cls": cls} for ax in ((), (0, 0), (2,), ("nope",), (-1,), (0, "x"), ("y", "y"))
                for cls in (None, "PolarHistogram")]

    def inputs(b):
        bins = nd_binnings(b, (2, 1), ["static"] * 2)
        cls = ("physt.special_histograms:" + b.cfg.cls) if b.cfg.cls else None
        return dict(self=histnd(b, "h", bins, (2, 1), cls=cls, meta={"name": None, "axis_names": ("x", "y")}), axes=tuple(b.cfg.axes))

    def invoke(I, fn, a, cfg):
        if I is not None:
            return I.call(I.getattr(a.self, "projection"), list(a.axes), {})
        return a.self.projection(*a.axes)

    @raises(ValueError, "empty_duplicate_or_unknown_axes_refused", state=lambda a, old: same_hist(old.self, a.self))
    def _(o):
        return True


@contract("physt.histogram_nd:Histogram2D.T", props=["C09", "C12"])
class _T:
    bounded = True
    bound_note = BOUND

    def configs():
        return [{"shape": (2, 1)}, {"shape": (2, 2)}]

    def inputs(b):
        c = b.cfg
        bins = nd_binnings(b, c.shape, ("static", "numpy"))
        return dict(self=histnd(b, "h", bins, c.shape, meta={"name": None, "axis_names": ("x", "y")}))

    @ensures("bins_names_contents_swapped")
    def _(a, old, result):
        s0 = shape_of(attr(old.self, "_frequencies"))
        f0, e0, f1, e1 = attr(old.self, "_frequencies"), attr(old.self, "_errors2"), attr(result, "_frequencies"), attr(result, "_errors2")
        cs = [shape_of(f1) == (s0[1], s0[0]), tuple(attr(result, "_meta_data")["axis_names"]) == ("y", "x"),
              same_binning(attr(old.self, "_binnings")[0], attr(result, "_binnings")[1]),
              same_binning(attr(old.self, "_binnings")[1], attr(result, "_binnings")[0]), same(M(result), M(old.self))]
        for i in range(s0[0]):
            for j in range(s0[1]):
                cs.append(And(f1[j, i] == f0[i, j], e1[j, i] == e0[i, j]))
        return And(*cs)

    @ensures("original_unchanged_and_independent")
    def _(a, old, result):
        return And(same_hist(old.self, a.self), independent(result, a.self))


@contract(HNDK + ".accumulate", props=["C09", "C13"])
class _accumulate:
    bounded = True
    bound_note = BOUND

    def configs():
        return [{"shape": (2, 2), "axis": 0}, {"shape": (2, 2), "axis": 1}, {"shape": (2, 2), "axis": "y"},
                {"shape": (2, 2), "axis": 0, "dtype": "int16"}]       # a narrow integer histogram: the running sums must not wrap

    def inputs(b):
        c = b.cfg
        bins = nd_binnings(b, c.shape, ("static", "static"))
        return dict(self=histnd(b, "h", bins, c.shape, dtype=getattr(c, "dtype", "int64"), meta={"name": None, "axis_names": ("x", "y")}), axis=c.axis)

    @ensures("running_sums_are_accumulated_in_numpys_default_accumulator_type")
    def _(a, old, result):
        wide = np.ones(1, attr(old.self, "_dtype")).cumsum().dtype
        return And(attr(result, "_dtype") == wide, dtype_of(attr(result, "_frequencies")) == wide, dtype_consistent(result))

    @ensures("cumulative_sums_along_exactly_that_axis")
    def _(a, old, result):
        ax = 1 if old.axis in (1, "y") else 0
        f0, f1 = attr(old.self, "_frequencies"), attr(result, "_frequencies")
        cs = []
        for i in range(2):
            for j in range(2):
                acc = 0
                for k in range((i if ax == 0 else j) + 1):
                    acc = acc + (f0[k, j] if ax == 0 else f0[i, k])
                cs.append(f1[i, j] == acc)
        return And(same_hist(old.self, a.self), *cs)


# ---------------------------------------------------------------------------------------------- ND selection (C11)

def _sel_cfgs():
    out = []
    for idx in ((0,), (1,), (slice(0, 1),), (slice(None), 0), (0, slice(None)), (slice(1, None), slice(0, 1)), (1, 0), (-1, -1),
                (slice(None), slice(None)), (0, 0, 0), (2,), (slice(None, None, -1),)):
        out.append({"shape": (2, 2), "index": repr(idx)})
    out.append({"shape": (2, 1, 2), "index": repr((1, slice(None), 0))})
    out.append({"shape": (2, 1, 2), "index": repr((slice(None), 0))})
    # several integers followed by a real selection (every dropped axis shifts the later ones), 3-D and 4-D
    out.append({"shape": (2, 2, 3), "index": repr((1, 0, slice(1, 3)))})
    out.append({"shape": (2, 2, 2, 2), "index": repr((1, 0, slice(1, 2), slice(None)))})
    out.append({"shape": (2, 2, 2, 2), "index": repr((0, slice(None), 1, slice(0, 1)))})
    out.append({"shape": (2, 2, 2), "index": repr((0, 1, 1))})
    return out


@contract(HNDK + ".__getitem__", props=["C11", "C12"])
class _nd_getitem:
    bounded = True
    bound_note = BOUND
    configs = staticmethod(_sel_cfgs)

    def inputs(b):
        c = b.cfg
        d = len(c.shape)
        bins = nd_binnings(b, c.shape, ["static"] * d)
        idx = eval(c.index)
        return dict(self=histnd(b, "h", bins, c.shape, meta={"name": "nm", "axis_names": NAMES[:d]}), index=idx if len(idx) > 1 else idx[0])

    def invoke(I, fn, a, cfg):
        if I is not None:
            return I.call(fn, [a.self, a.index], {})
        return fn(a.self, a.index)

    @ensures("numpy_semantics_on_the_bin_grid")
    def _(a, old, result):
        shape = shape_of(attr(old.self, "_frequencies"))
        d = len(shape)
        idx = old.index if isinstance(old.index, tuple) else (old.index,)
        full = tuple(idx) + (slice(None),) * (d - len(idx))
        f0, e0 = attr(old.self, "_frequencies"), attr(old.self, "_errors2")
        if all(isinstance(i, int) for i in full):
            edges, content = result
            cs = [content == f0[full]]
            for ax, i in enumerate(full):
                bs = bins_of(attr(old.self, "_binnings")[ax])
                cs.append(And(edges[ax][0] == bs[i][0], edges[ax][1] == bs[i][1]))
            return And(*cs)
        kept = [ax for ax, i in enumerate(full) if not isinstance(i, int)]
        cs = [tuple(attr(result, "_meta_data")["axis_names"]) == tuple(NAMES[k] for k in kept),
              same(elems(attr(result, "_frequencies")), elems(f0[full])), same(elems(attr(result, "_errors2")), elems(e0[full])),
              shape_of(attr(result, "_frequencies")) == shape_of(f0[full])]
        for pos, ax in enumerate(kept):
            bs = bins_of(attr(old.self, "_binnings")[ax])
            want = [bs[k] for k in list(range(shape[ax]))[full[ax]]]
            nb = bins_of(attr(result, "_binnings")[pos])
            cs.append(len(nb) == len(want))
            if len(nb) == len(want):
                cs.append(same([x for p in nb for x in p], [x for p in want for x in p]))
        return And(*cs)

    @ensures("source_unchanged_result_independent")
    def _(a, old, result):
        if isinstance(result, tuple):
            return same_hist(old.self, a.self)
        return And(same_hist(old.self, a.self), result is not a.self, independent(result, a.self))

    @raises(IndexError, "too_many_out_of_range_or_reversed_indices_refused", state=lambda a, old: same_hist(old.self, a.self))
    def _(o):
        idx = o.index if isinstance(o.index, tuple) else (o.index,)
        shape = shape_of(attr(o.self, "_frequencies"))
        if len(idx) > len(shape):
            return True
        for i, n in zip(idx, shape):
            if isinstance(i, int) and not -n <= i < n:
                return True
            if isinstance(i, slice) and i.step is not None and i.step < 0:
                return True
        return False



# ---------------------------------------------------------------------------------------------- adaptive ND fill_n (C04): NaN rows must not steer the growth

@contract(HNDK + ".fill_n", props=["C04", "C03"], name=HNDK + ".fill_n[adaptive]")
class _nd_filln_adaptive:
    bounded = True
    bound_note = "adaptive ND fill_n: axis 0 adaptive fixed-width with 1 bin (growth <= 3 bins), axis 1 one static bin; <= 2 rows with symbolic NaN flags"
    extent_cap = 4

    def configs():
        return [{"n": 1, "nan": False}, {"n": 2, "nan": True}]

    def inputs(b):
        c = b.cfg
        bins = [fixed_width(b, "B0", count=1, adaptive=True), make_binning(b, "B1", "static", 1)]
        return dict(self=histnd(b, "h", bins, (1, 1)), values=b.array("d", (c.n, 2), nan=c.nan))

    @ensures("complete_rows_are_covered_along_the_adaptive_axis_nothing_lost_nan_rows_ignored")
    def _(a, old, result):
        rows = rows_of(old.values)
        f1 = F(a.self)
        nb0 = attr(a.self, "_binnings")[0]
        shp = shape_of(attr(a.self, "_frequencies"))
        good = 0
        for r in rows:
            good = good + If(row_ok(r), 1, 0)
        cs = [total(f1) + M(a.self)[0] == total(F(old.self)) + M(old.self)[0] + good, attr(nb0, "_bin_count") == shp[0], shp[1] == 1]
        b0 = bins_of(nb0, shp[0])
        for r in rows:
            cs.append(Implies(row_ok(r), Or(*[inbin(b0, k, r[0], closed_last=False) for k in range(shp[0])])))
        return And(*cs)
