"""Further contracts: subtraction, normalisation, adaptive addition, collections, atomicity (C05, C06, C12, C13, C14, C18)."""
import numpy as np
from pyvc.vc import contract, ensures, raises
from pyvc.spec import *
from .common import *
from .arith import F, E, M, mk_hist, independent, promoted
from .fill import dtype_consistent
from .statistics import all_nan

HB = "physt.histogram_base:HistogramBase"
H1K = "physt.histogram1d:Histogram1D"
HC = "physt.histogram_collection:HistogramCollection"
BOUND = "1D with m<=2 bins (collections of <=3 members), 2D shape (2,2); contents symbolic"


# ---------------------------------------------------------------------------------------------- subtraction

def _sub_cfgs():
    return [{"d1": a, "d2": b, "inplace": ip} for a, b in (("int64", "int64"), ("float64", "float64"), ("int64", "float64"), ("float64", "int64"))
            for ip in (True, False)] + \
           [{"d1": "float64", "d2": "float64", "inplace": ip, "free": True} for ip in (True, False)]      # free arithmetics switched on


@contract(HB + ".__isub__", props=["C13", "C14", "C18", "C19"], name="histogram subtraction")
class _sub:
    bounded = True
    bound_note = BOUND
    configs = staticmethod(_sub_cfgs)

    def inputs(b):
        c = b.cfg
        h, o = mk_hist(b, "h", 1, 2, "fixed", c.d1), mk_hist(b, "o", 1, 2, "fixed", c.d2)
        return dict(self=h, other=o)

    def invoke(I, fn, a, cfg):
        name = "__isub__" if cfg.inplace else "__sub__"
        free = getattr(cfg, "free", False)
        if I is not None:
            I.setattr(I.load_module("physt.config").d["config"], "free_arithmetics", free)
            return I.call(I.find(HB + "." + name), [a.self, a.other], {})
        import physt.config
        physt.config.config.free_arithmetics = free
        try:
            return getattr(type(a.self), name)(a.self, a.other)
        finally:
            physt.config.config.free_arithmetics = False

    def enough(o):
        if getattr(o, "_cfg_free", False):
            return True          # with free arithmetics negative contents are allowed
        return And(*[x >= y for x, y in zip(F(o.self), F(o.other))])

    @ensures("difference_with_promoted_dtype_and_invalid_statistics")
    def _(a, old, result):
        f = [x - y for x, y in zip(F(old.self), F(old.other))]
        e = [x + y for x, y in zip(E(old.self), E(old.other))]
        return And(_sub.enough(old), same(F(result), f), same(E(result), e), dtype_consistent(result),
                   attr(result, "_dtype") == promoted(old.self, old.other), all_nan(attr(result, "_stats")),
                   same_hist(old.other, a.other), (result is a.self) if a._cfg_inplace else same_hist(old.self, a.self))

    @raises(ValueError, "subtracting_more_than_is_there_is_refused", state=lambda a, old: And(same_hist(old.self, a.self, stats=False, dtype=False), same_hist(old.other, a.other)))
    def _(o):
        return Not(_sub.enough(o))



# ---------------------------------------------------------------------------------------------- normalisation

@contract(HB + ".normalize", props=["C06", "C12", "C13"])
class _normalize:
    bounded = True
    bound_note = BOUND

    def configs():
        return [{"dim": d, "dtype": t, "inplace": ip, "percent": pc} for d in (1, 2) for t in ("int64", "float64") for ip in (False, True) for pc in (False, True)]

    def inputs(b):
        c = b.cfg
        h = mk_hist(b, "h", c.dim, 2, "fixed", c.dtype)
        b.assume(total(F(h)) > 0)
        return dict(self=h, inplace=c.inplace, percent=c.percent)

    @ensures("total_one_or_hundred_with_unchanged_proportions")
    def _(a, old, result):
        tot = total(F(old.self))
        scale = 100 if old.percent else 1
        f1 = F(result)
        return And(close(total(f1), scale), *[close(x1 * tot, x0 * scale) for x0, x1 in zip(F(old.self), f1)],
                   *[close(x1 * tot * tot, x0 * scale * scale) for x0, x1 in zip(E(old.self), E(result))],
                   dtype_consistent(result), attr(result, "_dtype").kind == "f")

    @ensures("inplace_or_fresh")
    def _(a, old, result):
        if old.inplace:
            return result is a.self
        return And(result is not a.self, same_hist(old.self, a.self), independent(result, a.self))


@contract("physt.histogram_nd:Histogram2D.partial_normalize", props=["C06", "C12", "C13"])
class _partial_normalize:
    bounded = True
    bound_note = BOUND

    def configs():
        return [{"axis": ax, "inplace": ip, "dtype": t} for ax in (0, 1, "y", "x") for ip in (False, True) for t in ("int64", "float64")]

    def inputs(b):
        c = b.cfg
        bins = [make_binning(b, f"B{i}", "static", 2) for i in range(2)]
        return dict(self=histnd(b, "h", bins, (2, 2), dtype=c.dtype, meta={"name": None, "axis_names": ("x", "y")}), axis=c.axis, inplace=c.inplace)

    @ensures("every_row_or_column_with_content_sums_to_one")
    def _(a, old, result):
        ax = 1 if old.axis in (1, "y") else 0
        f0, f1 = attr(old.self, "_frequencies"), attr(result, "_frequencies")
        e0, e1 = attr(old.self, "_errors2"), attr(result, "_errors2")
        cs = []
        for j in range(2):
            line0 = [f0[i, j] for i in range(2)] if ax == 0 else [f0[j, i] for i in range(2)]
            line1 = [f1[i, j] for i in range(2)] if ax == 0 else [f1[j, i] for i in range(2)]
            el0 = [e0[i, j] for i in range(2)] if ax == 0 else [e0[j, i] for i in range(2)]
            el1 = [e1[i, j] for i in range(2)] if ax == 0 else [e1[j, i] for i in range(2)]
            s0 = line0[0] + line0[1]
            cs.append(Implies(s0 != 0, And(close(line1[0] + line1[1], 1), *[close(y * s0, x) for x, y in zip(line0, line1)],
                                           *[close(y * s0 * s0, x) for x, y in zip(el0, el1)])))
            cs.append(Implies(s0 == 0, And(line1[0] == 0, line1[1] == 0)))
        return And(dtype_consistent(result), attr(result, "_dtype").kind == "f", *cs)

    @ensures("inplace_or_fresh")
    def _(a, old, result):
        if old.inplace:
            return result is a.self
        return And(result is not a.self, same_hist(old.self, a.self), independent(result, a.self))


# ---------------------------------------------------------------------------------------------- adaptive addition (C05)

def _aadd_cfgs():
    return [{"c1": a, "c2": b_} for a in (0, 1, 2) for b_ in (0, 1, 2)] + \
           [{"c1": 1, "c2": 1, "d1": "int64", "d2": "float64"}, {"c1": 1, "c2": 2, "d1": "float64", "d2": "int64"}] + \
           [{"c1": 1, "c2": 2, "other_adaptive": False}, {"c1": 2, "c2": 1, "other_adaptive": False}]      # an adaptive histogram plus a non-adaptive one (which stays non-adaptive)


@contract(HB + ".__iadd__", props=["C05", "C12", "C13", "C14", "C18"], name=HB + ".__iadd__[adaptive, grid-compatible]")
class _iadd_adaptive:
    bounded = True
    bound_note = "adaptive addition: operands with <= 2 bins each on a common grid, union of at most 6 bins"
    configs = staticmethod(_aadd_cfgs)
    extent_cap = 6

    def inputs(b):
        c = b.cfg
        b1 = fixed_width(b, "B", count=c.c1, adaptive=True)
        b2 = b.obj(FWB, _consecutive=None, _bins=None, _numpy_bins=None, _includes_right_edge=False, _adaptive=getattr(c, "other_adaptive", True),
                   _bin_width=b1._bin_width, _align=True, _bin_count=c.c2, _times_min=(b.int("O.t") if c.c2 else None), _shift=b1._shift)
        h = hist1d(b, "h", b1, c.c1, dtype=getattr(c, "d1", "int64"))
        o = hist1d(b, "o", b2, c.c2, dtype=getattr(c, "d2", "int64"))
        for x in M(o):
            b.assume(x == 0)
        return dict(self=h, other=o)

    @ensures("the_sum_has_the_promoted_dtype_and_is_well_formed")
    def _(a, old, result):
        return And(attr(a.self, "_dtype") == promoted(old.self, old.other), dtype_consistent(a.self), well_formed(a.self),
                   attr(a.other, "_dtype") == attr(old.other, "_dtype"))

    @ensures("bins_extended_to_the_union_nothing_lost")
    def _(a, old, result):
        nb = attr(a.self, "_binnings")[0]
        f1, e1 = F(a.self), E(a.self)
        n = len(f1)
        bins = bins_of(nb, n)
        cs = [attr(nb, "_bin_count") == n, total(f1) == total(F(old.self)) + total(F(old.other)),
              total(e1) == total(E(old.self)) + total(E(old.other)), same_hist(old.other, a.other)]
        # every old bin of either operand keeps its content on its interval
        w, s = attr(nb, "_bin_width"), attr(nb, "_shift")
        for src in (old.self, old.other):
            ob = attr(src, "_binnings")[0]
            f0 = F(src)
            if not f0:
                continue
        t_new = attr(nb, "_times_min")
        for j in range(n):
            want = 0
            for src in (old.self, old.other):
                ob = attr(src, "_binnings")[0]
                f0 = F(src)
                for i in range(len(f0)):
                    want = want + If(attr(ob, "_times_min") + i == t_new + j, f0[i], 0)
            cs.append(f1[j] == want)
        return And(*cs)

    @ensures("statistics_add")
    def _(a, old, result):
        s, o, r = attr(old.self, "_stats"), attr(old.other, "_stats"), attr(a.self, "_stats")
        return And(r.sum == s.sum + o.sum, r.weight == s.weight + o.weight)

    # F27: has_same_bins compares with np.allclose, so operands whose edges differ by less than the tolerance are added bin by
    # bin as if their bins were equal (no extension to the union)
    known = {"bins_extended_to_the_union_nothing_lost": [("F27", lambda o: tolerance_equal_but_different(o))]}


def tolerance_equal_but_different(o):
    b0, b1 = attr(o.self, "_binnings")[0], attr(o.other, "_binnings")[0]
    v0, v1 = bins_of(b0), bins_of(b1)
    if len(v0) != len(v1) or not v0:
        return False
    tol = lambda x, y: absolute(x - y) <= 1e-8 + 1e-5 * absolute(y)
    return And(Or(*[Or(p[0] != q[0], p[1] != q[1]) for p, q in zip(v0, v1)]), *[And(tol(p[0], q[0]), tol(p[1], q[1])) for p, q in zip(v0, v1)])


@contract(HB + ".__radd__", props=["C05"])
class _radd:
    bounded = True
    bound_note = BOUND

    def inputs(b):
        return dict(self=mk_hist(b, "h", 1, 2, "fixed", "int64"), other=0)

    @ensures("zero_plus_h_enables_sum")
    def _(a, old, result):
        return And(same_hist(old.self, result), same_hist(old.self, a.self))


# ---------------------------------------------------------------------------------------------- collections

def members(b, k, dtype="int64", same_binning_object=True):
    binning = make_binning(b, "B", "fixed", 2)
    hs = []
    for i in range(k):
        bn = binning if same_binning_object else make_binning(b, "B", "fixed", 2)
        hs.append(hist1d(b, f"h{i}", bn, 2, dtype=dtype, meta={"name": f"m{i}", "axis_names": ("ax",)}))
    return hs, binning


def collection(b, k, dtype="int64"):
    hs, binning = members(b, k, dtype)
    return b.obj(HC, histograms=hs, _binning=binning, name="col", title="col")


@contract(HC + ".sum", props=["C05"])
class _col_sum:
    bounded = True
    bound_note = BOUND

    def configs():
        return [{"k": k} for k in (1, 2, 3)]

    def inputs(b):
        return dict(self=collection(b, b.cfg.k))

    @ensures("sum_of_all_members_members_untouched")
    def _(a, old, result):
        hs = attr(old.self, "histograms")
        f = [0, 0]
        e = [0, 0]
        m = [0, 0, 0]
        for h in hs:
            f = [x + y for x, y in zip(f, F(h))]
            e = [x + y for x, y in zip(e, E(h))]
            m = [x + y for x, y in zip(m, M(h))]
        return And(same(F(result), f), same(E(result), e), same(M(result), m),
                   *[same_hist(x, y) for x, y in zip(hs, attr(a.self, "histograms"))])


@contract(HC + ".normalize_bins", props=["C06", "C12"])
class _col_normalize_bins:
    bounded = True
    bound_note = BOUND

    def configs():
        return [{"k": k, "inplace": ip, "dtype": t} for k in (1, 2) for ip in (False, True) for t in ("int64", "float64")]

    def inputs(b):
        c = collection(b, b.cfg.k, b.cfg.dtype)
        for j in range(2):
            b.assume(total([F(h)[j] for h in attr(c, "histograms")]) > 0)
        return dict(self=c, inplace=b.cfg.inplace)

    @ensures("shares_in_each_bin_sum_to_one")
    def _(a, old, result):
        hs0 = attr(old.self, "histograms")
        hs1 = attr(result, "histograms")
        cs = [len(hs0) == len(hs1)]
        for j in range(2):
            s0 = total([F(h)[j] for h in hs0])
            cs.append(close(total([F(h)[j] for h in hs1]), 1))
            for h0, h1 in zip(hs0, hs1):
                cs.append(close(F(h1)[j] * s0, F(h0)[j]))
                cs.append(close(E(h1)[j] * s0 * s0, E(h0)[j]))
        if not old.inplace:
            cs += [same_hist(x, y) for x, y in zip(hs0, attr(a.self, "histograms"))]
            cs += [independent(x, y) for x, y in zip(hs1, attr(a.self, "histograms"))]
        return And(*cs)



@contract(HC + ".normalize_all", props=["C06", "C12"])
class _col_normalize_all:
    bounded = True
    bound_note = BOUND

    def configs():
        return [{"k": 2, "inplace": ip} for ip in (False, True)]

    def inputs(b):
        c = collection(b, b.cfg.k)
        for h in attr(c, "histograms"):
            b.assume(total(F(h)) > 0)
        return dict(self=c, inplace=b.cfg.inplace)

    @ensures("every_member_has_total_one")
    def _(a, old, result):
        hs0, hs1 = attr(old.self, "histograms"), attr(result, "histograms")
        cs = []
        for h0, h1 in zip(hs0, hs1):
            t0 = total(F(h0))
            cs.append(close(total(F(h1)), 1))
            cs += [close(y * t0, x) for x, y in zip(F(h0), F(h1))]
        if not old.inplace:
            cs += [same_hist(x, y) for x, y in zip(hs0, attr(a.self, "histograms"))]
        return And(*cs)


@contract(HC + ".copy", props=["C12"])
class _col_copy:
    bounded = True
    bound_note = BOUND

    def inputs(b):
        return dict(self=collection(b, 2))

    @ensures("member_by_member_equal_and_independent")
    def _(a, old, result):
        hs0, hs1 = attr(old.self, "histograms"), attr(result, "histograms")
        return And(result is not a.self, len(hs0) == len(hs1), *[same_hist(x, y) for x, y in zip(hs0, hs1)],
                   *[independent(x, y) for x in hs1 for y in attr(a.self, "histograms")],
                   *[same_hist(x, y) for x, y in zip(hs0, attr(a.self, "histograms"))])


@contract(HC + ".__init__", props=["C18"])
class _col_init:
    bounded = True
    bound_note = BOUND

    def configs():
        return [{"case": c} for c in ("same", "different", "none")]

    def inputs(b):
        c = b.cfg
        if c.case == "none":
            return dict(self=b.obj(HC), hs=[])
        hs, _ = members(b, 2, same_binning_object=False)
        if c.case == "different":
            other = make_binning(b, "B2", "fixed", 2)
            b.assume(Or(other._bin_width != attr(hs[0], "_binnings")[0]._bin_width, other._times_min != attr(hs[0], "_binnings")[0]._times_min))
            b.assume(other._shift == attr(hs[0], "_binnings")[0]._shift)
            hs[1] = hist1d(b, "h1", other, 2, meta={"name": "m1", "axis_names": ("ax",)})
        return dict(self=b.obj(HC), hs=hs)

    def invoke(I, fn, a, cfg):
        if I is not None:
            return I.call(fn, [a.self] + list(a.hs), {})
        return fn(a.self, *a.hs)

    @ensures("members_share_one_binning")
    def _(a, old, result):
        return And(len(attr(a.self, "histograms")) == 2, a._cfg_case == "same")

    @raises(ValueError, "differing_binnings_or_nothing_refused")
    def _(o):
        return o._cfg_case != "same"


# ---------------------------------------------------------------------------------------------- atomicity of merge_bins over all axes (C18)

@contract(HB + ".merge_bins", props=["C18", "C10"], name=HB + ".merge_bins[all axes, in place]")
class _merge_atomic:
    bounded = True
    bound_note = BOUND

    def inputs(b):
        bins = [make_binning(b, "B0", "static", 2), make_binning(b, "B1", "gapped", 2)]
        return dict(self=histnd(b, "h", bins, (2, 2)), amount=2, inplace=True)

    @ensures("merged_on_both_axes")
    def _(a, old, result):
        return And(shape_of(attr(a.self, "_frequencies")) == (1, 1), total(F(a.self)) == total(F(old.self)))

    @raises(ValueError, "gap_on_any_axis_refuses_the_whole_operation", state=lambda a, old: same_hist(old.self, a.self))
    def _(o):
        b1 = bins_of(attr(o.self, "_binnings")[1])
        return b1[0][1] != b1[1][0]

    known = {"raises-state:gap_on_any_axis_refuses_the_whole_operation": [("F17", lambda o: True)]}


# ---------------------------------------------------------------------------------------------- adaptive fill_n (C04, C03)

def _contents_stay_on_their_intervals(a, old):
    """a refused call may already have extended the adaptive bins (empty bins are added), but every recorded content stays on its
    interval, the added bins are empty, missed counts are untouched and the histogram is well formed"""
    ob, nb = attr(old.self, "_binnings")[0], attr(a.self, "_binnings")[0]
    f0, f1, e0, e1 = F(old.self), F(a.self), E(old.self), E(a.self)
    n = len(f1)
    cs = [well_formed(a.self), attr(nb, "_bin_count") == n, attr(nb, "_bin_width") == attr(ob, "_bin_width"), attr(nb, "_shift") == attr(ob, "_shift"),
          same(M(a.self), M(old.self))]
    if not f0:
        return And(*cs, *[And(x == 0, y == 0) for x, y in zip(f1, e1)])
    for j in range(n):
        wf, we = 0, 0
        for i in range(len(f0)):
            wf = wf + If(attr(ob, "_times_min") + i == attr(nb, "_times_min") + j, f0[i], 0)
            we = we + If(attr(ob, "_times_min") + i == attr(nb, "_times_min") + j, e0[i], 0)
        cs += [f1[j] == wf, e1[j] == we]
    cs.append(attr(nb, "_times_min") <= attr(ob, "_times_min"))
    cs.append(attr(nb, "_times_min") + n >= attr(ob, "_times_min") + len(f0))
    return And(*cs)


@contract(H1K + ".fill_n", props=["C04", "C03", "C18"], name=H1K + ".fill_n[adaptive]")
class _filln_adaptive:
    bounded = True
    bound_note = "adaptive fill_n: <= 2 values, initial count <= 1, growth <= 5 bins"
    extent_cap = 6

    def configs():
        return [{"c": c, "n": n} for c in (0, 1) for n in (0, 1, 2)] + [{"c": 1, "n": 2, "bad_weights": True}, {"c": 1, "n": 1, "bad_weights": True}]

    def inputs(b):
        c = b.cfg
        binning = fixed_width(b, "B", count=c.c, adaptive=True)
        kw = dict(self=hist1d(b, "h", binning, c.c), values=b.array("d", (c.n,)))
        if getattr(c, "bad_weights", False):
            kw["weights"] = b.array("w", (c.n + 1,))          # one weight too many: the call is refused
        return kw

    @raises(ValueError, "weights_of_another_length_are_refused_and_every_content_stays_on_its_interval",
            state=lambda a, old: _contents_stay_on_their_intervals(a, old))
    def _(o):
        return hasattr(o, "weights")

    @ensures("every_value_inside_a_bin_total_grows_by_the_batch")
    def _(a, old, result):
        nb = attr(a.self, "_binnings")[0]
        f1 = F(a.self)
        n = len(f1)
        bins = bins_of(nb, n)
        d = elems(old.values)
        cs = [attr(nb, "_bin_count") == n, total(f1) == total(F(old.self)) + len(d), same(M(a.self), M(old.self))]
        for x in d:
            cs.append(Or(*[inbin(bins, k, x, closed_last=False) for k in range(n)]) if n else False)
        for j in range(n):
            want = 0
            ob = attr(old.self, "_binnings")[0]
            for i, f in enumerate(F(old.self)):
                want = want + If(attr(ob, "_times_min") + i == attr(nb, "_times_min") + j, f, 0)
            for x in d:
                want = want + If(inbin(bins, j, x, closed_last=False), 1, 0)
            cs.append(f1[j] == want)
        return And(*cs)



# ---------------------------------------------------------------------------------------------- dtype request through the ND facade (C13, C02)

@contract("physt._facade:h", props=["C13", "C02"], name="physt._facade:h[dtype request]")
class _h_dtype:
    bounded = True
    bound_note = BOUND

    def configs():
        return [{"dtype": "float64", "weights": None}, {"dtype": "int32", "weights": None}, {"dtype": "int64", "weights": "float64"},
                {"dtype": "uint32", "weights": "float64"}, {"dtype": "int64", "weights": "float32"}, {"dtype": "int32", "weights": "float16"}]

    def inputs(b):
        c = b.cfg
        bins = [make_binning(b, f"B{i}", "static", 1) for i in range(2)]
        kw = dict(data=b.array("d", (1, 2)), bins=bins, dtype=np.dtype(c.dtype))
        if c.weights:
            kw["weights"] = b.array("w", (1,), c.weights)
            nonneg(b, kw["weights"])
        return kw

    @ensures("requested_dtype_is_honoured")
    def _(a, old, result):
        return And(attr(result, "_dtype") == old.dtype, dtype_consistent(result))

    @raises(ValueError, "integer_histogram_with_float_weights_refused")
    def _(o):
        return hasattr(o, "weights") and np.dtype(o.dtype).kind in "iu"



# ---------------------------------------------------------------------------------------------- merge_bins(min_frequency) (C10)

@contract(HB + ".merge_bins", props=["C10"], name=HB + ".merge_bins[min_frequency]")
class _merge_minfreq:
    bounded = True
    bound_note = BOUND + "; merge_bins(min_frequency): 3 bins"

    def configs():
        return [{"m": 3, "dtype": "int64"}, {"m": 2, "dtype": "float64"}]

    def inputs(b):
        c = b.cfg
        h = mk_hist(b, "h", 1, c.m, "static", c.dtype)
        t = b.real("thr")
        return dict(self=h, min_frequency=t, inplace=False)

    @ensures("new_bins_are_unions_of_adjacent_old_bins_nothing_lost_outer_edges_kept")
    def _(a, old, result):
        ob = bins_of(attr(old.self, "_binnings")[0])
        nb = bins_of(attr(result, "_binnings")[0])
        f0, f1 = F(old.self), F(result)
        cs = [len(nb) >= 1, len(nb) <= len(ob), nb[0][0] == ob[0][0], nb[-1][1] == ob[-1][1],
              total(f1) == total(f0), total(E(result)) == total(E(old.self)), same(M(result), M(old.self)), same_hist(old.self, a.self)]
        # every new bin starts where the previous one ended and both edges are old edges
        old_edges = [ob[0][0]] + [r for _, r in ob]
        for k, (l, r) in enumerate(nb):
            cs.append(Or(*[l == e for e in old_edges]))
            cs.append(Or(*[r == e for e in old_edges]))
            if k:
                cs.append(l == nb[k - 1][1])
            # its content is the sum of the old bins it covers
            cov = 0
            for (ol, orr), x in zip(ob, f0):
                cov = cov + If(And(l <= ol, orr <= r), x, 0)
            cs.append(f1[k] == cov)
        return And(*cs)


@contract(HB + ".merge_bins", props=["C10", "C12"], name=HB + ".merge_bins[min_frequency, 2D]")
class _merge_minfreq_2d:
    """merging by min_frequency along one axis of a NON-SQUARE 2D histogram: the decision is taken on the projection onto
    that axis; rows are merged, columns stay"""
    bounded = True
    bound_note = BOUND + "; merge_bins(min_frequency) 2D: shapes (3,2) and (2,3)"

    def configs():
        return [{"shape": (3, 2), "axis": 0}, {"shape": (2, 3), "axis": 1}, {"shape": (3, 2), "axis": 1}]

    def inputs(b):
        c = b.cfg
        bs = [make_binning(b, f"B{i}", "static", s) for i, s in enumerate(c.shape)]
        return dict(self=histnd(b, "h", bs, c.shape, dtype="int64"), min_frequency=b.real("thr"), axis=c.axis, inplace=False)

    @ensures("bins_of_that_axis_are_unions_of_adjacent_old_bins_other_axis_untouched_nothing_lost")
    def _(a, old, result):
        ax = old.axis
        other = 1 - ax
        ob = bins_of(attr(old.self, "_binnings")[ax])
        nb = bins_of(attr(result, "_binnings")[ax])
        f0, f1 = aslist(attr(old.self, "_frequencies")), aslist(attr(result, "_frequencies"))
        e0, e1 = aslist(attr(old.self, "_errors2")), aslist(attr(result, "_errors2"))
        n_other = shape_of(attr(old.self, "_frequencies"))[other]
        get = (lambda m, i, j: m[i][j]) if ax == 0 else (lambda m, i, j: m[j][i])
        cs = [shape_of(attr(result, "_frequencies"))[other] == n_other, shape_of(attr(result, "_frequencies"))[ax] == len(nb),
              same_binning(attr(old.self, "_binnings")[other], attr(result, "_binnings")[other]),
              len(nb) >= 1, len(nb) <= len(ob), nb[0][0] == ob[0][0], nb[-1][1] == ob[-1][1],
              total(attr(result, "_frequencies")) == total(attr(old.self, "_frequencies")),
              same(attr(result, "_missed"), attr(old.self, "_missed")), same_hist(old.self, a.self), well_formed(result)]
        for k, (l, r) in enumerate(nb):
            if k:
                cs.append(l == nb[k - 1][1])
            for j in range(n_other):
                cov, cove = 0, 0
                for i, (ol, orr) in enumerate(ob):
                    cov = cov + If(And(l <= ol, orr <= r), get(f0, i, j), 0)
                    cove = cove + If(And(l <= ol, orr <= r), get(e0, i, j), 0)
                cs.append(And(get(f1, k, j) == cov, get(e1, k, j) == cove))
        return And(*cs)
