"""C17: input containers give the histogram of the equivalent array (bounded; pandas / polars behaviour is an ASSUMED
contract, see pyvc/libstubs.py -- the cross-check on the real libraries is its conformance run)."""
import numpy as np
from pyvc.vc import contract, ensures, raises
from pyvc.spec import *
from .common import *
from .arith import F, E, M
from .construct1d import wsum

BOUND = "containers: <= 3 values / rows, <= 2 bins per axis; values (with NaN flags), weights, edges symbolic"


def _src_cfgs():
    out = []
    for kind in ("list", "tuple", "iterator", "array2d", "pandas", "polars"):
        for wk in (None, "float64"):
            out.append({"kind": kind, "weights": wk, "nan": kind in ("pandas", "list"), "n": 2})
    out.append({"kind": "pandas", "weights": "pandas", "nan": True, "n": 2})
    out.append({"kind": "polars", "weights": "polars", "nan": False, "n": 2})
    for kind in ("pandas", "polars", "list"):       # a named container AND an explicit axis_name
        out.append({"kind": kind, "weights": None, "nan": False, "n": 1, "axis_name": "explicit"})
    return out


def wrap(b, kind, arr, name="col"):
    if kind == "list":
        return aslist(arr)
    if kind == "tuple":
        return tuple(aslist(arr))
    if kind == "iterator":
        return iter_of(b, aslist(arr))
    if kind == "array2d":
        return arr            # built with shape (n, 1) by the caller
    if kind in ("pandas", "polars"):
        return b.series(kind, arr, name)
    raise ValueError(kind)


def iter_of(b, items):
    if b.mode == "sym":
        from pyvc.values import GenList
        return GenList(list(items))
    return iter(list(items))


@contract("physt._facade:h1", props=["C17"], name="physt._facade:h1[containers]")
class _h1_containers:
    bounded = True
    bound_note = BOUND
    configs = staticmethod(_src_cfgs)

    def inputs(b):
        c = b.cfg
        binning = make_binning(b, "B", "static", 2)
        shape = (c.n, 1) if c.kind == "array2d" else (c.n,)
        arr = b.array("d", shape, nan=c.nan)
        kw = dict(data=wrap(b, c.kind, arr), bins=binning, _array=arr)
        if c.weights:
            w = b.array("w", shape if c.weights == "float64" else (c.n,), "float64")
            nonneg(b, w)
            kw["_warray"] = w
            kw["weights"] = w if c.weights == "float64" else b.series(c.weights, w, "wt")
        if getattr(c, "axis_name", None):
            kw["axis_name"] = c.axis_name          # an explicit name takes precedence over the name the container carries
        return kw

    def invoke(I, fn, a, cfg):
        kw = {k: v for k, v in a.__dict__.items() if not k.startswith("_")}
        if I is not None:
            return I.call(fn, [], kw)
        return fn(**kw)

    @ensures("same_histogram_as_the_equivalent_array")
    def _(a, old, result):
        bins = bins_of(old.bins)
        d = elems(old._array)
        w = elems(old._warray) if hasattr(old, "_warray") else None
        f, e = F(result), E(result)
        cs = []
        for k in range(len(bins)):
            cs.append(f[k] == wsum(d, w, lambda x, k=k: And(Not(isnan(x)), inbin(bins, k, x))))
            cs.append(e[k] == wsum(d, None if w is None else [sq(x) for x in w], lambda x, k=k: And(Not(isnan(x)), inbin(bins, k, x))))
        m = M(result)
        cs.append(m[0] == wsum(d, w, lambda x: And(Not(isnan(x)), x < bins[0][0])))
        cs.append(m[1] == wsum(d, w, lambda x: And(Not(isnan(x)), x > bins[-1][1])))
        return And(*cs)

    @ensures("axis_name_from_the_series_name")
    def _(a, old, result):
        want = "col" if a._cfg_kind in ("pandas", "polars") else "axis0"
        want = getattr(a, "_cfg_axis_name", None) or want
        return tuple(attr(result, "_meta_data").get("axis_names") or ("axis0",))[0] == want


@contract("physt._facade:h1", props=["C17"], name="physt._facade:h1[refused containers]")
class _h1_refused:
    bounded = True
    bound_note = BOUND

    def configs():
        return [{"case": c} for c in ("pandas_frame", "pandas_text", "polars_text", "polars_nulls", "scalar", "polars_frame", "weights_shape")]

    def inputs(b):
        c = b.cfg.case
        binning = make_binning(b, "B", "static", 2)
        arr = b.array("d", (2,))
        if c == "pandas_frame":
            data = b.frame("pandas", {"a": arr, "b": arr})
        elif c == "polars_frame":
            data = b.frame("polars", {"a": arr, "b": arr})
        elif c == "pandas_text":
            data = b.series("pandas", arr, "t", numeric=False)
        elif c == "polars_text":
            data = b.series("polars", arr, "t", numeric=False)
        elif c == "polars_nulls":
            data = b.series("polars", arr, "t", has_nulls=True)
        elif c == "scalar":
            data = b.real("x")
        else:
            data = b.series("pandas", arr, "t")
        kw = dict(data=data, bins=binning)
        if c == "weights_shape":
            kw["weights"] = b.array("w", (3,))
        return kw

    @raises((TypeError, ValueError), "non_numeric_null_or_wrongly_shaped_input_refused")
    def _(o):
        return True


def _hnd_cfgs():
    out = []
    for kind in ("array", "lists", "pandas", "polars"):
        for wk in (None, "float64"):
            for nan in (False, True):
                if kind == "polars" and nan and wk:
                    pass
                out.append({"kind": kind, "weights": wk, "nan": nan, "n": 2})
    return out


@contract("physt._facade:h", props=["C17"], name="physt._facade:h[containers]")
class _h_containers:
    bounded = True
    bound_note = BOUND
    configs = staticmethod(_hnd_cfgs)

    def inputs(b):
        c = b.cfg
        bins = [make_binning(b, f"B{i}", "static", s) for i, s in enumerate((1, 2))]
        arr = b.array("d", (c.n, 2), nan=c.nan)
        if c.kind == "array":
            data = arr
        elif c.kind == "lists":
            data = aslist(arr)
        else:
            cols = {"u": arr[:, 0] if b.mode == "conc" else b.carray_col(arr, 0), "v": arr[:, 1] if b.mode == "conc" else b.carray_col(arr, 1)}
            data = b.frame(c.kind, cols)
        kw = dict(data=data, bins=bins, _array=arr)
        if c.weights:
            w = b.array("w", (c.n,), "float64")
            nonneg(b, w)
            kw["weights"] = w
        return kw

    def invoke(I, fn, a, cfg):
        kw = {k: v for k, v in a.__dict__.items() if not k.startswith("_")}
        if I is not None:
            return I.call(fn, [], kw)
        return fn(**kw)

    @ensures("same_histogram_as_the_equivalent_array_rows_with_nan_dropped_with_their_weights")
    def _(a, old, result):
        import itertools
        from .nd import cell_pred, row_ok
        rows = aslist(old._array)
        w = elems(old.weights) if hasattr(old, "weights") else [1] * len(rows)
        binnings = old.bins
        shape = tuple(len(bins_of(x)) for x in binnings)
        f = F(result)
        cs = []
        tot = 0
        for r, wt in zip(rows, w):
            tot = tot + If(row_ok(r), wt, 0)
        for pos, cell in enumerate(itertools.product(*[range(s) for s in shape])):
            sf = 0
            for r, wt in zip(rows, w):
                sf = sf + If(And(row_ok(r), cell_pred(binnings, cell, r)), wt, 0)
            cs.append(f[pos] == sf)
        cs.append(total(f) + M(result)[0] == tot)
        return And(*cs)

    @ensures("axis_names_from_the_column_names")
    def _(a, old, result):
        want = ("u", "v") if a._cfg_kind in ("pandas", "polars") else ("axis0", "axis1")
        return tuple(attr(result, "_meta_data").get("axis_names") or ("axis0", "axis1")) == want



# ---------------------------------------------------------------------------------------------- dask: graph shape (the scheduler is trusted)

@contract("physt.compat.dask:_run_dask", props=["C17", "C05"])
class _run_dask:
    def configs():
        return [{"chunks": k, "expand": e} for k in (1, 2, 3) for e in (False,)]

    def inputs(b):
        from pyvc.libstubs import FakeDaskArray
        return dict(name="nm", data=FakeDaskArray("arr", b.cfg.chunks), compute=False, method=None, func="BLOCK_HIST", expand_arg=b.cfg.expand)

    @ensures("one_task_per_chunk_and_one_sum_over_all_of_them")     # then C05's chunk lemma applies: sum over any partition
    def _(a, old, result):
        graph, result_name = result
        keys = old.data.__dask_keys__()
        items = [k for k in graph if isinstance(k, str) and k != result_name]
        tasks = [graph[k] for k in items]
        op, summed = graph[result_name]
        return And(len(items) == len(keys), sorted(t[1] for t in tasks) == sorted(keys), all(t[0] == "BLOCK_HIST" for t in tasks),
                   list(summed) == items, len(set(items)) == len(items), all(k in graph for k in old.data.dask),
                   op is sum or getattr(op, "name", "") == "sum")

    @raises(ValueError, "never")
    def _(o):
        return False


# ---------------------------------------------------------------------------------------------- h2 / h3: column-wise input equals row-wise input

@contract("physt._facade:h2", props=["C02", "C17"])
class _h2:
    bounded = True
    bound_note = BOUND

    def configs():
        return [{"n": 2, "kind": k} for k in ("array", "list", "pandas")]

    def inputs(b):
        c = b.cfg
        bins = [make_binning(b, f"B{i}", "static", s) for i, s in enumerate((1, 2))]
        x, y = b.array("x", (c.n,)), b.array("y", (c.n,))
        wrapx = wrap(b, "list" if c.kind == "list" else ("pandas" if c.kind == "pandas" else "array2d"), x, "u") if c.kind != "array" else x
        wrapy = wrap(b, "list" if c.kind == "list" else ("pandas" if c.kind == "pandas" else "array2d"), y, "v") if c.kind != "array" else y
        return dict(data1=wrapx, data2=wrapy, bins=bins, _x=x, _y=y)

    def invoke(I, fn, a, cfg):
        kw = {k: v for k, v in a.__dict__.items() if not k.startswith("_")}
        if I is not None:
            return I.call(fn, [], kw)
        return fn(**kw)

    @ensures("equals_h_of_the_column_stacked_array_axes_not_mixed_up")
    def _(a, old, result):
        import itertools
        from .nd import cell_pred
        rows = [[x, y] for x, y in zip(elems(old._x), elems(old._y))]
        shape = tuple(len(bins_of(x)) for x in old.bins)
        f = F(result)
        cs = [typename(result) == "Histogram2D"]
        for pos, cell in enumerate(itertools.product(*[range(s) for s in shape])):
            sf = 0
            for r in rows:
                sf = sf + If(cell_pred(old.bins, cell, r), 1, 0)
            cs.append(f[pos] == sf)
        cs.append(total(f) + M(result)[0] == len(rows))
        if a._cfg_kind == "pandas":
            cs.append(tuple(attr(result, "_meta_data")["axis_names"]) == ("u", "v"))
        return And(*cs)


@contract("physt._facade:h3", props=["C02"])
class _h3:
    bounded = True
    bound_note = BOUND

    def configs():
        return [{"n": 1, "kind": k} for k in ("columns", "rows")]

    def inputs(b):
        c = b.cfg
        bins = [make_binning(b, f"B{i}", "static", s) for i, s in enumerate((1, 2, 1))]
        arr = b.array("d", (c.n, 3))
        if c.kind == "rows":
            data = arr
        else:
            data = [b.carray_col(arr, j) if b.mode == "sym" else arr[:, j].copy() for j in range(3)]
        return dict(data=data, bins=bins, _array=arr)

    def invoke(I, fn, a, cfg):
        kw = {k: v for k, v in a.__dict__.items() if not k.startswith("_")}
        if I is not None:
            return I.call(fn, [], kw)
        return fn(**kw)

    @ensures("equals_h_of_the_rows")
    def _(a, old, result):
        import itertools
        from .nd import cell_pred
        rows = aslist(old._array)
        shape = tuple(len(bins_of(x)) for x in old.bins)
        f = F(result)
        cs = [typename(result) == "HistogramND", len(attr(result, "_binnings")) == 3]
        for pos, cell in enumerate(itertools.product(*[range(s) for s in shape])):
            sf = 0
            for r in rows:
                sf = sf + If(cell_pred(old.bins, cell, r), 1, 0)
            cs.append(f[pos] == sf)
        return And(*cs)


# ---------------------------------------------------------------------------------------------- conversions (C17, last sentence)

@contract("physt.compat.geant4:_create_h1", props=["C17"], name="physt.compat.geant4:_create_h1")
class _geant4_h1:
    """the rows of a Geant4 CSV table (entries, Sw, Sw2, Sxw, Sx2w per bin; first / last row = under / overflow) become the
    contents, squared errors, under/overflow and statistics of the histogram"""
    bounded = True
    bound_note = "geant4: 2 or 3 bins"

    def configs():
        return [{"m": 2, "axis": "fixed 2 0 2"}, {"m": 3, "axis": "fixed 3 -1.5 1.5"}]

    def inputs(b):
        d = b.array("d", (b.cfg.m + 2, 5))
        nonneg(b, d)
        return dict(data=d, meta=[("title", "T"), ("dimension", "1"), ("axis", b.cfg.axis)])

    @ensures("columns_go_where_they_belong")
    def _(a, old, result):
        rows = aslist(old.data)
        m = a._cfg_m
        _, _, lo, hi = a._cfg_axis.split()
        lo, hi = float(lo), float(hi)
        w = (hi - lo) / m
        bins = bins_of(attr(result, "_binnings")[0], m)
        st = attr(result, "_stats")
        return And(same(F(result), [rows[k][1] for k in range(1, m + 1)]), same(E(result), [rows[k][2] for k in range(1, m + 1)]),
                   M(result)[0] == rows[0][1], M(result)[1] == rows[m + 1][1],
                   attr(st, "sum") == total([rows[k][3] for k in range(1, m + 1)]), attr(st, "sum2") == total([rows[k][4] for k in range(1, m + 1)]),
                   *[And(close(bins[k][0], lo + k * w), close(bins[k][1], lo + (k + 1) * w)) for k in range(m)],
                   attr(result, "_meta_data").get("name") == "T", same(a.data, old.data))


@contract("physt.compat.pandas:index_to_binning", props=["C17"], name="pandas IntervalIndex round trip")
class _interval_index_roundtrip:
    """binning -> pandas.IntervalIndex -> binning gives the same bins (gaps included).  pandas.IntervalIndex has no stub: this
    contract is decided by the cross-check on the real code and the real pandas only (bounded stand-in, never counted as proved)."""
    bounded = True
    bound_note = "IntervalIndex round trip: decided by the cross-check on the real code (real pandas) only; <= 3 bins"
    standin = True

    def configs():
        return [{"kind": "gapped", "m": 3}, {"kind": "gapped", "m": 2}, {"kind": "static", "m": 2}, {"kind": "fixed", "m": 2}]

    def inputs(b):
        bn = make_binning(b, "B", b.cfg.kind, b.cfg.m)
        if b.cfg.kind == "gapped":       # requires: a real gap (the case the conversion must not lose)
            v = bins_of(bn)
            b.assume(And(*[v[k][1] + 1 <= v[k + 1][0] for k in range(len(v) - 1)]))
        return dict(binning=bn)

    def invoke(I, fn, a, cfg):
        if I is not None:
            to_index = I.find("physt.compat.pandas:binning_to_index")
            return I.call(fn, [I.call(to_index, [a.binning], {})], {})
        from physt.compat.pandas import binning_to_index
        return fn(binning_to_index(a.binning))

    @ensures("same_bins_after_the_round_trip")
    def _(a, old, result):
        v0, v1 = bins_of(old.binning), bins_of(result)
        return And(len(v0) == len(v1), same([x for p in v0 for x in p], [x for p in v1 for x in p]), same_binning(old.binning, a.binning))
