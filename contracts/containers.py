"""C17: input containers give the histogram of the equivalent array (bounded; pandas / polars behaviour is an ASSUMED
contract, see pyvc/libstubs.py -- the cross-check on the real libraries is its conformance run)."""
import numpy as np
from pyvc.vc import contract, ensures, raises
from pyvc.spec import *
from .common import *
from .arith import F, E, M
from .construct1d import wsum

BOUND = "containers: <= 3 values / rows, <= 2 bins per axis; values (with NaN flags), weights, edges symbolic"


def _src_cfgs():
    out = []
    for kind in ("list", "tuple", "iterator", "array2d", "pandas", "polars"):
        for wk in (None, "float64"):
            out.append({"kind": kind, "weights": wk, "nan": kind in ("pandas", "list"), "n": 2})
    out.append({"kind": "pandas", "weights": "pandas", "nan": True, "n": 2})
    out.append({"kind": "polars", "weights": "polars", "nan": False, "n": 2})
    return out


def wrap(b, kind, arr, name="col"):
    if kind == "list":
        return aslist(arr)
    if kind == "tuple":
        return tuple(aslist(arr))
    if kind == "iterator":
        return iter_of(b, aslist(arr))
    if kind == "array2d":
        return arr            # built with shape (n, 1) by the caller
    if kind in ("pandas", "polars"):
        return b.series(kind, arr, name)
    raise ValueError(kind)


def iter_of(b, items):
    if b.mode == "sym":
        from pyvc.values import GenList
        return GenList(list(items))
    return iter(list(items))


@contract("physt._facade:h1", props=["C17"], name="physt._facade:h1[containers]")
class _h1_containers:
    bounded = True
    bound_note = BOUND
    configs = staticmethod(_src_cfgs)

    def inputs(b):
        c = b.cfg
        binning = make_binning(b, "B", "static", 2)
        shape = (c.n, 1) if c.kind == "array2d" else (c.n,)
        arr = b.array("d", shape, nan=c.nan)
        kw = dict(data=wrap(b, c.kind, arr), bins=binning, _array=arr)
        if c.weights:
            w = b.array("w", shape if c.weights == "float64" else (c.n,), "float64")
            nonneg(b, w)
            kw["_warray"] = w
            kw["weights"] = w if c.weights == "float64" else b.series(c.weights, w, "wt")
        return kw

    def invoke(I, fn, a, cfg):
        kw = {k: v for k, v in a.__dict__.items() if not k.startswith("_")}
        if I is not None:
            return I.call(fn, [], kw)
        return fn(**kw)

    @ensures("same_histogram_as_the_equivalent_array")
    def _(a, old, result):
        bins = bins_of(old.bins)
        d = elems(old._array)
        w = elems(old._warray) if hasattr(old, "_warray") else None
        f, e = F(result), E(result)
        cs = []
        for k in range(len(bins)):
            cs.append(f[k] == wsum(d, w, lambda x, k=k: And(Not(isnan(x)), inbin(bins, k, x))))
            cs.append(e[k] == wsum(d, None if w is None else [sq(x) for x in w], lambda x, k=k: And(Not(isnan(x)), inbin(bins, k, x))))
        m = M(result)
        cs.append(m[0] == wsum(d, w, lambda x: And(Not(isnan(x)), x < bins[0][0])))
        cs.append(m[1] == wsum(d, w, lambda x: And(Not(isnan(x)), x > bins[-1][1])))
        return And(*cs)

    @ensures("axis_name_from_the_series_name")
    def _(a, old, result):
        want = "col" if a._cfg_kind in ("pandas", "polars") else "axis0"
        return tuple(attr(result, "_meta_data").get("axis_names") or ("axis0",))[0] == want


@contract("physt._facade:h1", props=["C17"], name="physt._facade:h1[refused containers]")
class _h1_refused:
    bounded = True
    bound_note = BOUND

    def configs():
        return [{"case": c} for c in ("pandas_frame", "pandas_text", "polars_text", "polars_nulls", "scalar", "polars_frame", "weights_shape")]

    def inputs(b):
        c = b.cfg.case
        binning = make_binning(b, "B", "static", 2)
        arr = b.array("d", (2,))
        if c == "pandas_frame":
            data = b.frame("pandas", {"a": arr, "b": arr})
        elif c == "polars_frame":
            data = b.frame("polars", {"a": arr, "b": arr})
        elif c == "pandas_text":
            data = b.series("pandas", arr, "t", numeric=False)
        elif c == "polars_text":
            data = b.series("polars", arr, "t", numeric=False)
        elif c == "polars_nulls":
            data = b.series("polars", arr, "t", has_nulls=True)
        elif c == "scalar":
            data = b.real("x")
        else:
            data = b.series("pandas", arr, "t")
        kw = dict(data=data, bins=binning)
        if c == "weights_shape":
            kw["weights"] = b.array("w", (3,))
        return kw

    @raises((TypeError, ValueError), "non_numeric_null_or_wrongly_shaped_input_refused")
    def _(o):
        return True


def _hnd_cfgs():
    out = []
    for kind in ("array", "lists", "pandas", "polars"):
        for wk in (None, "float64"):
            for nan in (False, True):
                if kind == "polars" and nan and wk:
                    pass
                out.append({"kind": kind, "weights": wk, "nan": nan, "n": 2})
    return out


@contract("physt._facade:h", props=["C17"], name="physt._facade:h[containers]")
class _h_containers:
    bounded = True
    bound_note = BOUND
    configs = staticmethod(_hnd_cfgs)

    def inputs(b):
        c = b.cfg
        bins = [make_binning(b, f"B{i}", "static", s) for i, s in enumerate((1, 2))]
        arr = b.array("d", (c.n, 2), nan=c.nan)
        if c.kind == "array":
            data = arr
        elif c.kind == "lists":
            data = aslist(arr)
        else:
            cols = {"u": arr[:, 0] if b.mode == "conc" else b.carray_col(arr, 0), "v": arr[:, 1] if b.mode == "conc" else b.carray_col(arr, 1)}
            data = b.frame(c.kind, cols)
        kw = dict(data=data, bins=bins, _array=arr)
        if c.weights:
            w = b.array("w", (c.n,), "float64")
            nonneg(b, w)
            kw["weights"] = w
        return kw

    def invoke(I, fn, a, cfg):
        kw = {k: v for k, v in a.__dict__.items() if not k.startswith("_")}
        if I is not None:
            return I.call(fn, [], kw)
        return fn(**kw)

    @ensures("same_histogram_as_the_equivalent_array_rows_with_nan_dropped_with_their_weights")
    def _(a, old, result):
        import itertools
        from .nd import cell_pred, row_ok
        rows = aslist(old._array)
        w = elems(old.weights) if hasattr(old, "weights") else [1] * len(rows)
        binnings = old.bins
        shape = tuple(len(bins_of(x)) for x in binnings)
        f = F(result)
        cs = []
        tot = 0
        for r, wt in zip(rows, w):
            tot = tot + If(row_ok(r), wt, 0)
        for pos, cell in enumerate(itertools.product(*[range(s) for s in shape])):
            sf = 0
            for r, wt in zip(rows, w):
                sf = sf + If(And(row_ok(r), cell_pred(binnings, cell, r)), wt, 0)
            cs.append(f[pos] == sf)
        cs.append(total(f) + M(result)[0] == tot)
        return And(*cs)

    @ensures("axis_names_from_the_column_names")
    def _(a, old, result):
        want = ("u", "v") if a._cfg_kind in ("pandas", "polars") else ("axis0", "axis1")
        return tuple(attr(result, "_meta_data").get("axis_names") or ("axis0", "axis1")) == want



# ---------------------------------------------------------------------------------------------- dask: graph shape (the scheduler is trusted)

@contract("physt.compat.dask:_run_dask", props=["C17", "C05"])
class _run_dask:
    def configs():
        return [{"chunks": k, "expand": e} for k in (1, 2, 3) for e in (False,)]

    def inputs(b):
        from pyvc.libstubs import FakeDaskArray
        return dict(name="nm", data=FakeDaskArray("arr", b.cfg.chunks), compute=False, method=None, func="BLOCK_HIST", expand_arg=b.cfg.expand)

    @ensures("one_task_per_chunk_and_one_sum_over_all_of_them")     # then C05's chunk lemma applies: sum over any partition
    def _(a, old, result):
        graph, result_name = result
        keys = old.data.__dask_keys__()
        items = [k for k in graph if isinstance(k, str) and k != result_name]
        tasks = [graph[k] for k in items]
        op, summed = graph[result_name]
        return And(len(items) == len(keys), sorted(t[1] for t in tasks) == sorted(keys), all(t[0] == "BLOCK_HIST" for t in tasks),
                   list(summed) == items, len(set(items)) == len(items), all(k in graph for k in old.data.dask),
                   op is sum or getattr(op, "name", "") == "sum")

    @raises(ValueError, "never")
    def _(o):
        return False


# ---------------------------------------------------------------------------------------------- h2 / h3: column-wise input equals row-wise input

@contract("physt._facade:h2", props=["C02", "C17"])
class _h2:
    bounded = True
    bound_note = BOUND

    def configs():
        return [{"n": 2, "kind": k} for k in ("array", "list", "pandas")]

    def inputs(b):
        c = b.cfg
        bins = [make_binning(b, f"B{i}", "static", s) for i, s in enumerate((1, 2))]
        x, y = b.array("x", (c.n,)), b.array("y", (c.n,))
        wrapx = wrap(b, "list" if c.kind == "list" else ("pandas" if c.kind == "pandas" else "array2d"), x, "u") if c.kind != "array" else x
        wrapy = wrap(b, "list" if c.kind == "list" else ("pandas" if c.kind == "pandas" else "array2d"), y, "v") if c.kind != "array" else y
        return dict(data1=wrapx, data2=wrapy, bins=bins, _x=x, _y=y)

    def invoke(I, fn, a, cfg):
        kw = {k: v for k, v in a.__dict__.items() if not k.startswith("_")}
        if I is not None:
            return I.call(fn, [], kw)
        return fn(**kw)

    @ensures("equals_h_of_the_column_stacked_array_axes_not_mixed_up")
    def _(a, old, result):
        import itertools
        from .nd import cell_pred
        rows = [[x, y] for x, y in zip(elems(old._x), elems(old._y))]
        shape = tuple(len(bins_of(x)) for x in old.bins)
        f = F(result)
        cs = [typename(result) == "Histogram2D"]
        for pos, cell in enumerate(itertools.product(*[range(s) for s in shape])):
            sf = 0
            for r in rows:
                sf = sf + If(cell_pred(old.bins, cell, r), 1, 0)
            cs.append(f[pos] == sf)
        cs.append(total(f) + M(result)[0] == len(rows))
        if a._cfg_kind == "pandas":
            cs.append(tuple(attr(result, "_meta_data")["axis_names"]) == ("u", "v"))
        return And(*cs)


@contract("physt._facade:h3", props=["C02"])
class _h3:
    bounded = True
    bound_note = BOUND

    def configs():
        return [{"n": 1, "kind": k} for k in ("columns", "rows")]

    def inputs(b):
        c = b.cfg
        bins = [make_binning(b, f"B{i}", "static", s) for i, s in enumerate((1, 2, 1))]
        arr = b.array("d", (c.n, 3))
        if c.kind == "rows":
            data = arr
        else:
            data = [b.carray_col(arr, j) if b.mode == "sym" else arr[:, j].copy() for j in range(3)]
        return dict(data=data, bins=bins, _array=arr)

    def invoke(I, fn, a, cfg):
        kw = {k: v for k, v in a.__dict__.items() if not k.startswith("_")}
        if I is not None:
            return I.call(fn, [], kw)
        return fn(**kw)

    @ensures("equals_h_of_the_rows")
    def _(a, old, result):
        import itertools
        from .nd import cell_pred
        rows = aslist(old._array)
        shape = tuple(len(bins_of(x)) for x in old.bins)
        f = F(result)
        cs = [typename(result) == "HistogramND", len(attr(result, "_binnings")) == 3]
        for pos, cell in enumerate(itertools.product(*[range(s) for s in shape])):
            sf = 0
            for r in rows:
                sf = sf + If(cell_pred(old.bins, cell, r), 1, 0)
            cs.append(f[pos] == sf)
        return And(*cs)
