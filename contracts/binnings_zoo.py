"""C07: binning classes, bin utilities and factories (bounded: at most 3 bins / 3 data values; edges and data symbolic)."""
import numpy as np
from pyvc.vc import contract, ensures, raises
from pyvc.spec import *
from .common import *

BU = "physt._bin_utils:"
BN = "physt.binnings:"
BOUND = "binnings: at most 3 bins and 3 data values; edges, data, widths symbolic"


def pairs_flat(pairs):
    return [x for p in pairs for x in p]


def is_rising_pairs(rows):
    return rising([(r[0], r[1]) for r in rows])


# ---------------------------------------------------------------------------------------------- _bin_utils

@contract(BU + "make_bin_array", props=["C07"])
class _make_bin_array:
    bounded = True
    bound_note = BOUND

    def configs():
        return [{"shape": s} for s in ((0,), (1,), (3,), (4,), (0, 2), (2, 2), (2, 3), (1, 2, 2))]

    def inputs(b):
        return dict(bins=b.array("e", tuple(b.cfg.shape)))

    @ensures("edges_become_pairs_pairs_pass_through")
    def _(a, old, result):
        shp = shape_of(old.bins)
        e = elems(old.bins)
        if len(shp) == 1:
            n = max(shp[0] - 1, 0)
            return And(shape_of(result) == (n, 2), same(elems(result), pairs_flat([(e[k], e[k + 1]) for k in range(n)])))
        return And(shape_of(result) == shp, same(elems(result), e))

    @raises(ValueError, "wrongly_shaped_specification_refused")
    def _(o):
        shp = shape_of(o.bins)
        return len(shp) > 2 or (len(shp) == 2 and shp[1] != 2)


@contract(BU + "is_rising", props=["C07", "C01"])
class _is_rising:
    bounded = True
    bound_note = BOUND

    def configs():
        return [{"shape": s} for s in ((3,), (1, 2), (3, 2), (1,))]

    def inputs(b):
        return dict(bins=b.array("e", tuple(b.cfg.shape)))

    @ensures("left_less_than_right_and_no_overlap")
    def _(a, old, result):
        shp = shape_of(old.bins)
        e = elems(old.bins)
        rows = [(e[k], e[k + 1]) for k in range(shp[0] - 1)] if len(shp) == 1 else [tuple(r) for r in aslist(old.bins)]
        return Iff(result, rising(rows))


@contract(BU + "is_consecutive", props=["C07", "C01"])
class _is_consecutive:
    bounded = True
    bound_note = BOUND

    def configs():
        return [{"shape": s} for s in ((3,), (1, 2), (3, 2))]

    def inputs(b):
        return dict(bins=b.array("e", tuple(b.cfg.shape)))

    @ensures("neighbouring_edges_match_within_tolerance")
    def _(a, old, result):
        shp = shape_of(old.bins)
        if len(shp) == 1:
            return result is True or result == True
        rows = aslist(old.bins)
        return Iff(result, And(*[absolute(rows[k + 1][0] - rows[k][1]) <= 1e-8 + 1e-5 * absolute(rows[k][1]) for k in range(len(rows) - 1)]) if len(rows) > 1 else True)


@contract(BU + "to_numpy_bins_with_mask", props=["C07", "C02"])
class _tnbwm:
    bounded = True
    bound_note = BOUND

    def configs():
        return [{"shape": s} for s in ((0, 2), (1, 2), (2, 2), (3, 2), (3,), (1,))]

    def inputs(b):
        arr = b.array("e", tuple(b.cfg.shape))
        return dict(bins=arr)

    @ensures("edges_rising_mask_points_at_the_bins_gaps_are_extra_cells")
    def _(a, old, result):
        edges, mask = result
        shp = shape_of(old.bins)
        ee, mm = elems(edges), elems(mask)
        if len(shp) == 1:
            e = elems(old.bins)
            return And(same(ee, e), mm == list(range(max(len(e) - 1, 0))))
        rows = aslist(old.bins)
        cs = [len(mm) == len(rows)]
        for k in range(len(ee) - 1):
            cs.append(ee[k] < ee[k + 1])
        for k, (l, r) in enumerate(rows):
            # mask[k] is concrete on every path (its value depends on which neighbours touch)
            cs.append(And(ee[mm[k]] == l, ee[mm[k] + 1] == r))
        for k in range(len(rows) - 1):
            cs.append(mm[k] < mm[k + 1])
            cs.append(Iff(rows[k][1] == rows[k + 1][0], mm[k + 1] == mm[k] + 1))
        return And(*cs)

    @raises(ValueError, "non_monotone_edges_refused")
    def _(o):
        shp = shape_of(o.bins)
        if len(shp) == 1:
            e = elems(o.bins)
            return Not(And(*[e[k] < e[k + 1] for k in range(len(e) - 1)])) if len(e) > 1 else False
        rows = aslist(o.bins)
        return Not(rising([(r[0], r[1]) for r in rows])) if rows else False


@contract(BU + "is_bin_subset", props=["C07", "C05"])
class _is_bin_subset:
    bounded = True
    bound_note = BOUND

    def configs():
        return [{"n": 1, "m": 2}, {"n": 2, "m": 2}, {"n": 0, "m": 1}]

    def inputs(b):
        return dict(sub=b.array("s", (b.cfg.n, 2)), sup=b.array("S", (b.cfg.m, 2)))

    @ensures("every_sub_bin_occurs_in_the_superset")
    def _(a, old, result):
        sub, sup = aslist(old.sub), aslist(old.sup)
        want = And(*[Or(*[And(r[0] == q[0], r[1] == q[1]) for q in sup]) for r in sub]) if sub else True
        return Iff(result, want)


# ---------------------------------------------------------------------------------------------- classes: validation

@contract(BN + "StaticBinning.__init__", props=["C07"])
class _static_init:
    bounded = True
    bound_note = BOUND

    def configs():
        return [{"shape": s} for s in ((1, 2), (2, 2), (3, 2), (3,), (2, 3))]

    def inputs(b):
        return dict(self=b.obj(STB), bins=b.array("e", tuple(b.cfg.shape)))

    @ensures("stored_bins_are_rising")
    def _(a, old, result):
        rows = aslist(attr(a.self, "_bins"))
        return And(is_rising_pairs(rows), attr(a.self, "_includes_right_edge") is True, attr(a.self, "_adaptive") is False)

    @raises(ValueError, "unsorted_overlapping_empty_width_or_misshaped_refused")
    def _(o):
        shp = shape_of(o.bins)
        if len(shp) == 2 and shp[1] != 2:
            return True
        e = elems(o.bins)
        rows = [(e[k], e[k + 1]) for k in range(shp[0] - 1)] if len(shp) == 1 else [tuple(r) for r in aslist(o.bins)]
        return Not(rising(rows))


@contract(BN + "NumpyBinning.__init__", props=["C07"])
class _numpy_init:
    bounded = True
    bound_note = BOUND

    def configs():
        return [{"n": n} for n in (2, 3, 4)]

    def inputs(b):
        return dict(self=b.obj(NPB), numpy_bins=b.array("e", (b.cfg.n,)))

    @ensures("edges_strictly_rising")
    def _(a, old, result):
        e = elems(attr(a.self, "_numpy_bins"))
        return And(*[e[k] < e[k + 1] for k in range(len(e) - 1)], same(e, elems(old.numpy_bins)))

    @raises(ValueError, "unsorted_edges_refused")
    def _(o):
        e = elems(o.numpy_bins)
        return Not(And(*[e[k] < e[k + 1] for k in range(len(e) - 1)]))


# ---------------------------------------------------------------------------------------------- classes: representation agreement

def _repr_cfgs():
    out = []
    for kind in ("static", "gapped", "numpy", "fixed"):
        for n in (1, 2, 3):
            out.append({"kind": kind, "n": n})
    for kind in ("static", "gapped", "numpy", "fixed"):       # the same on a binning that has been looked at before
        out.append({"kind": kind, "n": 3, "warm": True})
    return out


@contract(BN + "BinningBase.bins", props=["C07"], name="binning representations agree")
class _representations:
    bounded = True
    bound_note = BOUND
    configs = staticmethod(_repr_cfgs)

    def inputs(b):
        return dict(self=make_binning(b, "B", b.cfg.kind, b.cfg.n))

    def invoke(I, fn, a, cfg):
        names = ["bins", "bin_count", "first_edge", "last_edge", "includes_right_edge"]
        out = {}
        g = (lambda n: I.getattr(a.self, n)) if I is not None else (lambda n: getattr(a.self, n))
        call = (lambda n, *x: I.call(I.getattr(a.self, n), list(x), {})) if I is not None else (lambda n, *x: getattr(a.self, n)(*x))
        for n in names:
            out[n] = g(n)
        out["is_consecutive"] = call("is_consecutive")
        out["is_regular"] = call("is_regular")
        out["copy"] = call("copy")
        out["as_static"] = call("as_static")
        out["slice"] = (I.call(I.getattr(a.self, "__getitem__"), [slice(1, None)], {}) if I is not None else a.self[1:])
        out["eq_copy"] = (I.equals(a.self, out["copy"]) if I is not None else (a.self == out["copy"]))
        out["eq_slice"] = (I.equals(a.self, out["slice"]) if I is not None else (a.self == out["slice"]))
        if cfg.kind != "gapped":
            out["numpy_bins"] = g("numpy_bins")
        out["masked"] = g("numpy_bins_with_mask")
        return out

    @ensures("pair_edge_count_first_last_agree")
    def _(a, old, result):
        v = bins_of(old.self)
        n = len(v)
        cs = [shape_of(result["bins"]) == (n, 2), same(elems(result["bins"]), pairs_flat(v)), result["bin_count"] == n,
              result["first_edge"] == v[0][0], result["last_edge"] == v[-1][1]]
        if "numpy_bins" in result:
            cs.append(same(elems(result["numpy_bins"]), [v[0][0]] + [p[1] for p in v]))
        return And(*cs)

    @ensures("masked_edges_encode_gaps_and_right_edge")
    def _(a, old, result):
        v = bins_of(old.self)
        edges, mask = result["masked"]
        ee, mm = elems(edges), elems(mask)
        ire = attr(old.self, "_includes_right_edge")
        cs = [len(mm) == len(v)]
        for k, (l, r) in enumerate(v):
            cs.append(And(ee[mm[k]] == l, ee[mm[k] + 1] == r))
        if not ire:
            cs.append(ee[-1] == float("inf"))
        else:
            cs.append(ee[-1] == v[-1][1])
        return And(*cs)

    @ensures("is_consecutive_and_is_regular_describe_the_bins")
    def _(a, old, result):
        v = bins_of(old.self)
        tol = lambda x, y: absolute(x - y) <= 1e-8 + 1e-5 * absolute(y)
        cons = And(*[tol(v[k + 1][0], v[k][1]) for k in range(len(v) - 1)]) if len(v) > 1 else True
        widths = [r - l for l, r in v]
        # np.allclose(np.diff(widths), 0): |w_k+1 - w_k| <= atol
        reg = And(*[absolute(widths[k + 1] - widths[k]) <= 1e-8 for k in range(len(widths) - 1)]) if len(widths) > 1 else True
        cs = [Iff(result["is_regular"], reg)]
        if typename(old.self) == "StaticBinning":
            cs.append(Iff(result["is_consecutive"], cons))
        else:
            cs.append(result["is_consecutive"] is True)
        return And(*cs)

    @ensures("copy_equality_slicing_as_static")
    def _(a, old, result):
        v = bins_of(old.self)
        c, s, sl = result["copy"], result["as_static"], result["slice"]
        cs = [c is not a.self, same_binning(old.self, c), typename(s) == "StaticBinning", same(pairs_flat(bins_of(s)), pairs_flat(v)),
              attr(s, "_includes_right_edge") == attr(old.self, "_includes_right_edge"),
              result["eq_copy"] is True or result["eq_copy"] == True,
              same(pairs_flat(bins_of(sl)), pairs_flat(v[1:])),
              same_binning(old.self, a.self)]
        if len(v) > 1:
            cs.append(Not(result["eq_slice"]) if not isinstance(result["eq_slice"], bool) else not result["eq_slice"])
        # representation invariant: whatever caches the source had, every filled cache of source, copy, static twin and slice
        # agrees with that object's own bins
        cs += [rep_ok(a.self), rep_ok(c), rep_ok(s), rep_ok(sl)]
        return And(*cs)


@contract(BN + "BinningBase.as_fixed_width", props=["C07", "C05"])
class _as_fixed_width:
    bounded = True
    bound_note = BOUND

    def configs():
        return [{"kind": k, "n": n} for k in ("static", "numpy", "gapped") for n in (1, 2, 3)] + [{"kind": "gapped", "n": 3, "warm": True}]

    def inputs(b):
        return dict(self=make_binning(b, "B", b.cfg.kind, b.cfg.n))

    @ensures("same_bins_as_a_fixed_width_grid")
    def _(a, old, result):
        v = bins_of(old.self)
        w = v[0][1] - v[0][0]
        exact = And(*[And(v[k + 1][0] == v[k][1], v[k + 1][1] - v[k + 1][0] == w) for k in range(len(v) - 1)]) if len(v) > 1 else True
        # exactly regular, exactly consecutive bins are reproduced exactly; bins that are regular only within
        # is_regular's tolerance are approximated by the grid of the first bin (same count, same first bin)
        return And(typename(result) == "FixedWidthBinning", attr(result, "_bin_count") == len(v), attr(result, "_bin_width") == w,
                   same(list(bins_of(result, len(v))[0]), list(v[0])),
                   Implies(exact, same(pairs_flat(bins_of(result, len(v))), pairs_flat(v))))

    @raises(ValueError, "irregular_or_gapped_bins_cannot_become_fixed_width")
    def _(o):
        v = bins_of(o.self)
        widths = [r - l for l, r in v]
        if len(v) < 2:
            return False
        tol = lambda x, y: absolute(x - y) <= 1e-8 + 1e-5 * absolute(y)
        regular = And(*[absolute(widths[k + 1] - widths[k]) <= 1e-8 for k in range(len(widths) - 1)])
        consecutive = And(*[tol(v[k + 1][0], v[k][1]) for k in range(len(v) - 1)])
        return Not(And(regular, consecutive))


@contract(BN + "as_binning", props=["C07", "C12"])
class _as_binning:
    bounded = True
    bound_note = BOUND

    def configs():
        return [{"what": "binning", "copy": False}, {"what": "binning", "copy": True}, {"what": "edges", "copy": False}, {"what": "pairs", "copy": False}]

    def inputs(b):
        c = b.cfg
        if c.what == "binning":
            obj = make_binning(b, "B", "fixed", 2)
        elif c.what == "edges":
            obj = b.array("e", (3,))
        else:
            obj = b.array("e", (2, 2))
        return dict(obj=obj, copy=c.copy)

    @ensures("binning_with_the_given_bins")
    def _(a, old, result):
        if is_obj(old.obj):
            return And((result is not a.obj) if old.copy else (result is a.obj), same_binning(old.obj, result))
        e = elems(old.obj)
        v = [(e[k], e[k + 1]) for k in range(len(e) - 1)] if len(shape_of(old.obj)) == 1 else [tuple(r) for r in aslist(old.obj)]
        return And(typename(result) == "StaticBinning", same(pairs_flat(bins_of(result)), pairs_flat(v)), rising(v))

    @raises(ValueError, "non_rising_specification_refused")
    def _(o):
        if is_obj(o.obj):
            return False
        e = elems(o.obj)
        v = [(e[k], e[k + 1]) for k in range(len(e) - 1)] if len(shape_of(o.obj)) == 1 else [tuple(r) for r in aslist(o.obj)]
        return Not(rising(v))


# ---------------------------------------------------------------------------------------------- factories

@contract(BN + "numpy_binning", props=["C07"])
class _numpy_binning:
    bounded = True
    bound_note = BOUND

    def configs():
        return [{"n": 3, "bin_count": 2, "range": False}, {"n": 2, "bin_count": 3, "range": False}, {"n": 0, "bin_count": 2, "range": True},
                {"n": 1, "bin_count": 2, "range": False}, {"n": 3, "bin_count": 1, "range": True}]

    def inputs(b):
        c = b.cfg
        kw = dict(data=b.array("d", (c.n,)), bin_count=c.bin_count)
        if c.range:
            lo, hi = b.real("lo"), b.real("hi")
            b.assume(lo < hi)
            kw["range"] = (lo, hi)
        return kw

    @ensures("numpy_histogram_edges_equally_spaced_over_range_or_data")
    def _(a, old, result):
        d = elems(old.data)
        n = old.bin_count
        if hasattr(old, "range"):
            lo, hi = old.range
        else:
            lo, hi = d[0], d[0]
            for x in d[1:]:
                lo, hi = fmin(lo, x), fmax(hi, x)
        e = elems(attr(result, "_numpy_bins"))
        cs = [typename(result) == "NumpyBinning", len(e) == n + 1, e[0] == lo, e[n] == hi, attr(result, "_includes_right_edge") is True]
        for k in range(n + 1):
            cs.append(close(e[k] * n, lo * n + k * (hi - lo)))
        for k in range(n):
            cs.append(e[k] < e[k + 1])
        if not hasattr(old, "range"):
            cs += [And(e[0] <= x, x <= e[n]) for x in d]
        return And(*cs)

    @raises(ValueError, "too_little_data_to_infer_bins")
    def _(o):
        if hasattr(o, "range"):
            return False
        d = elems(o.data)
        if len(d) < 2:
            return True
        return And(*[x == d[0] for x in d[1:]])


def _fwb_cfgs():
    out = []
    for n in (1, 2):
        for ire in (False, True):
            for kind in ("fixed_width", "integer"):
                out.append({"n": n, "ire": ire, "kind": kind, "range": False})
    out.append({"n": 0, "ire": False, "kind": "fixed_width", "range": True})
    out.append({"n": 2, "ire": False, "kind": "fixed_width", "range": True})
    return out


@contract(BN + "fixed_width_binning", props=["C07", "C04"])
class _fixed_width_binning:
    bounded = True
    bound_note = "fixed_width/integer binning factories: <= 2 data values, the grid grows by at most 6 bins"
    configs = staticmethod(_fwb_cfgs)
    extent_cap = 8

    def inputs(b):
        c = b.cfg
        w = b.real("w") if c.kind == "fixed_width" else b.int("w")
        b.assume(w > 0)
        kw = dict(data=b.array("d", (c.n,)), bin_width=w, includes_right_edge=c.ire)
        if c.range:
            lo, hi = b.real("lo"), b.real("hi")
            b.assume(lo < hi)
            kw["range"] = (lo, hi)
        return kw

    def invoke(I, fn, a, cfg):
        kw = {k: v for k, v in a.__dict__.items() if not k.startswith("_cfg_")}
        if cfg.kind == "integer":
            if I is not None:
                return I.call(I.find(BN + "integer_binning"), [], kw)
            from physt.binnings import integer_binning
            return integer_binning(**kw)
        if I is not None:
            return I.call(fn, [], kw)
        return fn(**kw)

    @ensures("equal_width_grid_aligned_and_covering")
    def _(a, old, result):
        t, w, s, c = attr(result, "_times_min"), attr(result, "_bin_width"), attr(result, "_shift"), attr(result, "_bin_count")
        d = elems(old.data)
        cs = [typename(result) == "FixedWidthBinning", w == old.bin_width, s == (0.5 if a._cfg_kind == "integer" else 0.0) if False else True]
        cs.append(s == (0.5 if a._cfg_kind == "integer" else 0))
        targets = list(d)
        if hasattr(old, "range"):
            targets = [old.range[0], old.range[1]]
        if targets:
            cs.append(c >= 1)
            first, last = grid(t, w, s, 0), grid(t, w, s, c)
            for x in targets:
                cs.append(first <= x)
            if hasattr(old, "range"):
                cs.append(old.range[1] <= last)
            else:
                for x in d:
                    cs.append(Or(x < last, And(old.includes_right_edge, x == last)))
            # tight: no empty bin at either end
            lo, hi = targets[0], targets[0]
            for x in targets[1:]:
                lo, hi = fmin(lo, x), fmax(hi, x)
            cs.append(lo < grid(t, w, s, 1))
            cs.append(hi >= grid(t, w, s, c - 1))
        else:
            cs.append(c == 0)
        return And(*cs)


@contract(BN + "static_binning", props=["C07"])
class _static_binning:
    bounded = True
    bound_note = BOUND

    def inputs(b):
        e = b.array("e", (3,))
        return dict(data=None, bins=e)

    @ensures("exactly_the_given_bins")
    def _(a, old, result):
        e = elems(old.bins)
        return And(typename(result) == "StaticBinning", same(pairs_flat(bins_of(result)), [e[0], e[1], e[1], e[2]]), e[0] < e[1], e[1] < e[2])

    @raises(ValueError, "unsorted_refused")
    def _(o):
        e = elems(o.bins)
        return Not(And(e[0] < e[1], e[1] < e[2]))


@contract(BN + "exponential_binning", props=["C07"])
class _exponential:
    bounded = True
    bound_note = BOUND

    def configs():
        return [{"n": 3, "bin_count": 2, "range": False}, {"n": 0, "bin_count": 3, "range": True}]

    def inputs(b):
        c = b.cfg
        d = b.array("d", (c.n,))
        for x in elems(d):
            b.assume(x > 0)
        kw = dict(data=d, bin_count=c.bin_count)
        if c.range:
            lo, hi = b.real("lo"), b.real("hi")
            b.assume(And(0 < lo, lo < hi))
            kw["range"] = (lo, hi)
        return kw

    @ensures("geometric_edges_from_log_min_in_equal_log_steps")
    def _(a, old, result):
        from pyvc.spec import _ufun_app
        n = old.bin_count
        if hasattr(old, "range"):
            lo, hi = old.range
        else:
            d = elems(old.data)
            lo, hi = d[0], d[0]
            for x in d[1:]:
                lo, hi = fmin(lo, x), fmax(hi, x)
        llo, lhi = _ufun_app("log10", lo), _ufun_app("log10", hi)
        return And(typename(result) == "ExponentialBinning", attr(result, "_log_min") == llo, attr(result, "_bin_count") == n,
                   close(attr(result, "_log_width") * n, lhi - llo),
                   attr(result, "_log_width") > 0)     # strictly rising edges need a positive log-width (10**x is monotone)

    @raises(ValueError, "degenerate_range_refused")
    def _(o):
        from pyvc.spec import _ufun_app
        if hasattr(o, "range"):
            lo, hi = o.range
        else:
            d = elems(o.data)
            lo, hi = d[0], d[0]
            for x in d[1:]:
                lo, hi = fmin(lo, x), fmax(hi, x)
        return Not(_ufun_app("log10", hi) > _ufun_app("log10", lo))


@contract(BN + "quantile_binning", props=["C07"])
class _quantile:
    bounded = True
    bound_note = BOUND

    def configs():
        return [{"case": "both"}, {"case": "neither"}, {"case": "q_and_qrange"}, {"case": "nodata"}]

    def inputs(b):
        c = b.cfg
        d = b.array("d", (3,))
        kw = dict(data=d)
        if c.case == "both":
            kw.update(bin_count=2, q=[0.0, 0.5, 1.0])
        elif c.case == "q_and_qrange":
            kw.update(q=[0.0, 1.0], qrange=(0.1, 0.9))
        elif c.case == "nodata":
            kw = dict(data=None, bin_count=2)
        return kw

    @raises(ValueError, "inconsistent_quantile_arguments_refused")
    def _(o):
        return True


@contract(BN + "ideal_bin_count", props=["C07"])
class _ideal_bin_count:
    bounded = True
    bound_note = "ideal_bin_count: data sizes 0..200 enumerated (the result depends on the size only, doane excluded)"

    def configs():
        return [{"n": n, "method": m} for n in (0, 1, 2, 32, 33, 64, 100, 200) for m in ("default", "sqrt", "sturges", "rice")] + [{"n": 5, "method": "nope"}]

    def inputs(b):
        return dict(data=b.carray([0.0] * b.cfg.n), method=b.cfg.method)

    @ensures("the_rule_formula_at_least_one")
    def _(a, old, result):
        import math
        n = a._cfg_n
        m = a._cfg_method
        if n < 1:
            want = 1
        elif m == "default":
            want = 7 if n <= 32 else int(math.ceil(math.log2(n)) + 1)
        elif m == "sqrt":
            want = int(math.ceil(math.sqrt(n)))
        elif m == "sturges":
            want = int(math.ceil(math.log2(n)) + 1)
        else:
            want = int(np.ceil(2 * np.power(n, 1 / 3)))
        return And(result == want, result >= 1)

    @raises(ValueError, "unknown_rule_refused")
    def _(o):
        return o.method not in ("default", "sqrt", "sturges", "rice", "doane") and o._cfg_n >= 1


# ---------------------------------------------------------------------------------------------- dispatch on the `bins` argument

C1B = "physt._construction:calculate_1d_bins"


@contract(C1B, props=["C07", "C01"])
class _calc_1d_bins:
    bounded = True
    bound_note = BOUND

    def configs():
        return [{"spec": s} for s in ("none", "int", "binning", "edges", "pairs", "fixed_width", "integer", "static", "unknown", "float", "sqrt", "callable_name")]

    def inputs(b):
        c = b.cfg
        d = b.array("d", (3,))
        e = elems(d)
        b.assume(Or(e[0] != e[1], e[1] != e[2]))
        kw = {}
        spec = {"none": None, "int": 2, "unknown": "nonsense", "float": 1.5, "sqrt": "sqrt", "fixed_width": "fixed_width", "integer": "integer",
                "static": "static"}.get(c.spec)
        if c.spec == "binning":
            spec = make_binning(b, "B", "fixed", 2)
        elif c.spec == "edges":
            spec = b.array("e", (3,))
        elif c.spec == "pairs":
            spec = b.array("e", (2, 2))
        elif c.spec == "callable_name":
            spec = "numpy"
        if c.spec == "fixed_width":
            kw["bin_width"] = b.real("w")
            b.assume(kw["bin_width"] > 0)
        if c.spec == "static":
            kw["bins"] = b.array("e", (3,))
        return dict(array=d, _=spec, **kw)

    def invoke(I, fn, a, cfg):
        kw = {k: v for k, v in a.__dict__.items() if not k.startswith("_cfg_") and k not in ("array", "_")}
        if I is not None:
            return I.call(fn, [a.array, a._], kw)
        return fn(a.array, a._, **kw)

    @ensures("the_binning_the_argument_asks_for")
    def _(a, old, result):
        spec = a._cfg_spec
        want = {"none": "NumpyBinning", "int": "NumpyBinning", "binning": "FixedWidthBinning", "edges": "StaticBinning", "pairs": "StaticBinning",
                "fixed_width": "FixedWidthBinning", "integer": "FixedWidthBinning", "static": "StaticBinning", "sqrt": "NumpyBinning",
                "callable_name": "NumpyBinning"}[spec]
        cs = [typename(result) == want]
        if spec == "binning":
            cs.append(result is a._)
        if spec in ("none", "int", "sqrt", "callable_name"):
            cs.append(len(elems(attr(result, "_numpy_bins"))) == {"none": 11, "int": 3, "sqrt": 3, "callable_name": 11}[spec])
        if spec in ("edges", "pairs"):
            e = elems(old._)
            v = [(e[0], e[1]), (e[1], e[2])] if spec == "edges" else [(e[0], e[1]), (e[2], e[3])]
            cs.append(same(pairs_flat(bins_of(result)), pairs_flat(v)))
        return And(*cs)

    @raises(ValueError, "unknown_method_or_invalid_specification_refused")
    def _(o):
        spec = o._cfg_spec
        if spec in ("unknown", "float"):
            return True
        if spec in ("edges", "pairs", "static"):
            e = elems(o._ if spec != "static" else o.bins)
            v = [(e[0], e[1]), (e[1], e[2])] if spec != "pairs" else [(e[0], e[1]), (e[2], e[3])]
            return Not(rising(v))
        return False


# ---------------------------------------------------------------------------------------------- pretty_binning (C07)

def _pretty_width_of(raw):
    """the library's own choice of a pretty width for `raw` (find_pretty_width has its own contract); evaluated by the interpreter in
    the symbolic world and by the real function in the concrete one"""
    if is_sym_world(raw):
        from pyvc.values import CURRENT
        I = CURRENT["interp"]
        return I.call(I.find("physt._bin_utils:find_pretty_width"), [raw], {})
    from physt._bin_utils import find_pretty_width
    return find_pretty_width(raw)


@contract(BN + "pretty_binning", props=["C07"])
class _pretty_binning:
    """the width is the pretty width of (max - min) / bin_count where an explicit range takes precedence over the data's own
    minimum and maximum; the bins are laid over that range / the data on the grid of multiples of the width"""
    bounded = True
    bound_note = "pretty_binning: 2 data values, explicit range or none, bin_count given"

    def configs():
        return [{"data": True, "range": False}, {"data": True, "range": True}, {"data": False, "range": True}]

    def inputs(b):
        c = b.cfg
        kw = dict(data=None, bin_count=b.int("k"))
        b.assume(And(kw["bin_count"] >= 1, kw["bin_count"] <= 3))
        if c.data:
            d = b.array("d", (2,))
            b.assume(elems(d)[0] < elems(d)[1])
            kw["data"] = d
        if c.range:
            lo, hi = b.real("lo"), b.real("hi")
            b.assume(lo < hi)
            if c.data:       # requires: the data lie inside the requested range
                b.assume(And(lo <= elems(kw["data"])[0], elems(kw["data"])[1] <= hi))
            kw["range"] = (lo, hi)
        return kw

    @ensures("width_from_the_requested_range_if_given_otherwise_from_the_data")
    def _(a, old, result):
        if hasattr(old, "range"):
            lo, hi = old.range
        else:
            lo, hi = elems(old.data)
        raw = div(hi - lo, old.bin_count)
        return And(typename(result) == "FixedWidthBinning", close(attr(result, "_bin_width"), _pretty_width_of(raw)))
