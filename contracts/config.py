"""C19: the free-arithmetics switch (unbounded: no arrays involved, the switch value is symbolic).

Assumed (stub) contracts: contextvars.ContextVar (one cell per context; set returns a token holding the previous
value; reset(token) restores it) and contextlib.contextmanager (the generator's finally runs on normal and on
exceptional exit of the with body).  Thread / task isolation is *reduced to* that assumed ContextVar contract
by the frame clause "the switch lives nowhere but in the ContextVar"; interleavings themselves are not decided."""
import os
from pyvc.vc import contract, ensures, raises
from pyvc.values import Raised, obj_dict, Obj
from pyvc.spec import *
from .common import *
from .arith import mk_hist, F, E, M

CFG = "physt.config:_Config"


class Boom(Exception):
    pass


class BoomBase(BaseException):
    """an exit that is not an Exception (KeyboardInterrupt, SystemExit, GeneratorExit, asyncio.CancelledError are of this kind)"""


def _boom(cfg):
    return BoomBase if getattr(cfg, "exc", None) == "base" else Boom


def _cm_cfgs():
    out = []
    for depth in (1, 2, 3):
        for fail_at in (None,) + tuple(range(1, depth + 1)):
            out.append({"depth": depth, "fail_at": fail_at})
    out += [{"depth": 1, "fail_at": 1, "exc": "base"}, {"depth": 2, "fail_at": 2, "exc": "base"}, {"depth": 3, "fail_at": 2, "exc": "base"}]
    # a configuration object on which nothing has been set yet: the value to restore is the default taken from the environment
    out += [{"depth": 1, "fail_at": None, "fresh": "1"}, {"depth": 2, "fail_at": 2, "fresh": "1"}, {"depth": 1, "fail_at": 1, "fresh": "0"}]
    # the body itself assigns the option (plain setter) before it ends: the exit still restores the value seen at entry
    out += [{"depth": 1, "fail_at": None, "body_sets": True}, {"depth": 2, "fail_at": 2, "body_sets": True}, {"depth": 2, "fail_at": None, "body_sets": True}]
    return out


def _get(I, cfgobj):
    return I.getattr(cfgobj, "free_arithmetics") if I is not None else cfgobj.free_arithmetics


def _fresh_config(I, cls, value):
    """a new _Config created with PHYST_FREE_ARITHMETICS=value in the environment"""
    if I is not None:
        saved = dict(I._environ.d)
        I._environ.d["PHYST_FREE_ARITHMETICS"] = value
        try:
            o = Obj(cls)
            I.call(I.getattr(cls, "__init__"), [o], {})
            return o
        finally:
            I._environ.d = saved
    saved = os.environ.get("PHYST_FREE_ARITHMETICS")
    os.environ["PHYST_FREE_ARITHMETICS"] = value
    try:
        o = object.__new__(cls)          # the class is a singleton (its __new__ refuses a second instance): initialise a raw one
        cls.__init__(o)
        return o
    finally:
        if saved is None:
            os.environ.pop("PHYST_FREE_ARITHMETICS", None)
        else:
            os.environ["PHYST_FREE_ARITHMETICS"] = saved


@contract(CFG + ".enable_free_arithmetics", props=["C19"])
class _enable:
    configs = staticmethod(_cm_cfgs)

    def inputs(b):
        vals = [b.bool(f"v{i}") for i in range(1, b.cfg.depth + 1)]
        fresh = getattr(b.cfg, "fresh", None)
        init = b.bool("init") if fresh is None else (fresh == "1")
        kw = dict(self=b.module_attr("physt.config", "config"), cls=b.module_attr("physt.config", "_Config"), init=init, values=vals)
        if getattr(b.cfg, "body_sets", False):
            kw["flips"] = [b.bool(f"s{i}") for i in range(1, b.cfg.depth + 1)]
        return kw

    def invoke(I, fn, a, cfg):
        """nested `with config.enable_free_arithmetics(v_i):` blocks; the body at depth fail_at raises."""
        obs = {"inside": [], "after_each": [None] * cfg.depth}
        fresh = getattr(cfg, "fresh", None)
        if fresh is not None:
            a.self = _fresh_config(I, a.cls, fresh)
        if I is not None:
            if fresh is None:
                I.setattr(a.self, "free_arithmetics", a.init)
            obs["keys_before"] = set(obj_dict(a.self))
            var_before = obj_dict(a.self).get("_free_arithmetics")

            def level(i):
                cm = I.call(I.getattr(a.self, "enable_free_arithmetics"), [a.values[i]], {})

                def body(_):
                    obs["inside"].append(_get(I, a.self))
                    if i + 1 < cfg.depth:
                        try:
                            level(i + 1)
                        finally:
                            obs["after_each"][i + 1] = _get(I, a.self)
                    if getattr(cfg, "body_sets", False):
                        I.setattr(a.self, "free_arithmetics", a.flips[i])
                    if cfg.fail_at == i + 1:
                        raise Raised(_boom(cfg)("body failed"))
                I.run_contextmanager(cm, body)
            try:
                level(0)
                obs["raised"] = False
            except Raised as r:
                if not isinstance(r.exc, _boom(cfg)):
                    raise
                obs["raised"] = True
            obs["after_each"][0] = _get(I, a.self)
            obs["keys_after"] = set(obj_dict(a.self))
            obs["same_variable"] = obj_dict(a.self).get("_free_arithmetics") is var_before
            return obs
        if fresh is None:
            a.self.free_arithmetics = a.init
        obs["keys_before"] = set(vars(a.self))
        var_before = vars(a.self).get("_free_arithmetics")

        def level(i):
            with a.self.enable_free_arithmetics(a.values[i]):
                obs["inside"].append(a.self.free_arithmetics)
                if i + 1 < cfg.depth:
                    try:
                        level(i + 1)
                    finally:
                        obs["after_each"][i + 1] = a.self.free_arithmetics
                if getattr(cfg, "body_sets", False):
                    a.self.free_arithmetics = a.flips[i]
                if cfg.fail_at == i + 1:
                    raise _boom(cfg)("body failed")
        try:
            level(0)
            obs["raised"] = False
        except _boom(cfg):
            obs["raised"] = True
        obs["after_each"][0] = a.self.free_arithmetics
        obs["keys_after"] = set(vars(a.self))
        obs["same_variable"] = vars(a.self).get("_free_arithmetics") is var_before
        if fresh is None:
            a.self.free_arithmetics = False
        return obs

    @ensures("inside_the_block_the_requested_value_is_seen")
    def _(a, old, result):
        return And(*[Iff(x, v) for x, v in zip(result["inside"], old.values)])

    @ensures("every_exit_restores_the_previous_value")     # normal and exceptional exits, every nesting level
    def _(a, old, result):
        prev = [old.init] + list(old.values)
        return And(*[Iff(result["after_each"][i], prev[i]) for i in range(len(old.values)) if result["after_each"][i] is not None])

    @ensures("the_exception_of_the_body_propagates")
    def _(a, old, result):
        return result["raised"] == (len(result["inside"]) > 0 and result["raised"])

    @ensures("switch_lives_only_in_the_context_variable")
    def _(a, old, result):
        # ... and it is the SAME context variable afterwards (a re-created variable would carry a new process-wide default)
        return And(result["keys_before"] == {"_free_arithmetics"}, result["keys_after"] == {"_free_arithmetics"}, result["same_variable"])


@contract(CFG + ".free_arithmetics", props=["C19"], name=CFG + ".free_arithmetics[get/set]")
class _getset:
    def inputs(b):
        return dict(self=b.module_attr("physt.config", "config"), v1=b.bool("v1"), v2=b.bool("v2"))

    def invoke(I, fn, a, cfg):
        if I is not None:
            var_before = obj_dict(a.self).get("_free_arithmetics")
            default_before = getattr(var_before, "default", None)
            I.setattr(a.self, "free_arithmetics", a.v1)
            r1 = _get(I, a.self)
            I.setattr(a.self, "free_arithmetics", a.v2)
            var_after = obj_dict(a.self).get("_free_arithmetics")
            return (r1, _get(I, a.self), set(obj_dict(a.self)), var_after is var_before, getattr(var_after, "default", None) is default_before)
        var_before = vars(a.self).get("_free_arithmetics")
        a.self.free_arithmetics = a.v1
        r1 = a.self.free_arithmetics
        a.self.free_arithmetics = a.v2
        r2 = a.self.free_arithmetics
        a.self.free_arithmetics = False
        return (r1, r2, set(vars(a.self)), vars(a.self).get("_free_arithmetics") is var_before, True)

    @ensures("getter_returns_what_the_setter_stored")
    def _(a, old, result):
        return And(Iff(result[0], old.v1), Iff(result[1], old.v2), result[2] == {"_free_arithmetics"})

    @ensures("the_setter_writes_into_the_existing_context_variable_it_does_not_replace_it")
    def _(a, old, result):
        # an assignment is local to the current context only if it goes through ContextVar.set of the SAME variable; a new
        # variable (with the value as its default) would be seen by every other thread / task
        return And(result[3], result[4])


@contract(CFG + ".__init__", props=["C19"])
class _init:
    def configs():
        return [{"env": None}, {"env": "0"}, {"env": "1"}, {"env": "true"}, {"env": ""}]

    def environ(cfg):
        return {} if cfg["env"] is None else {"PHYST_FREE_ARITHMETICS": cfg["env"]}

    def inputs(b):
        return dict(cls=b.module_attr("physt.config", "_Config"))

    def invoke(I, fn, a, cfg):
        if I is not None:
            o = Obj(a.cls)
            I.call(fn, [o], {})
            return I.getattr(o, "free_arithmetics")
        saved = os.environ.get("PHYST_FREE_ARITHMETICS")
        try:
            if cfg.env is None:
                os.environ.pop("PHYST_FREE_ARITHMETICS", None)
            else:
                os.environ["PHYST_FREE_ARITHMETICS"] = cfg.env
            o = object.__new__(a.cls)
            fn(o)
            return o.free_arithmetics
        finally:
            if saved is None:
                os.environ.pop("PHYST_FREE_ARITHMETICS", None)
            else:
                os.environ["PHYST_FREE_ARITHMETICS"] = saved

    @ensures("default_is_on_only_for_the_value_1")
    def _(a, old, result):
        return result is True if False else (result == (a._cfg_env == "1"))


# ---------------------------------------------------------------------------------------------- guards in the histogram code

HB = "physt.histogram_base:HistogramBase"


@contract(HB + ".__iadd__", props=["C19", "C05"], name=HB + ".__iadd__[array operand, switch symbolic]")
class _iadd_array:
    bounded = True
    bound_note = "guards: 1D histogram with 2 bins, array operand of length 2; switch value symbolic"

    def inputs(b):
        me = mk_hist(b, "h", 1, 2, "gapped", "float64")
        arr = b.array("x", (2,))
        nonneg(b, arr)
        return dict(self=me, other=arr, switch=b.bool("switch"), config=b.module_attr("physt.config", "config"))

    def invoke(I, fn, a, cfg):
        if I is not None:
            I.setattr(a.config, "free_arithmetics", a.switch)
            return I.call(fn, [a.self, a.other], {})
        a.config.free_arithmetics = a.switch
        try:
            return fn(a.self, a.other)
        finally:
            a.config.free_arithmetics = False

    @ensures("accepted_only_with_the_switch_on")
    def _(a, old, result):
        return And(old.switch, same(F(a.self), [x + y for x, y in zip(F(old.self), elems(old.other))]),
                   same(E(a.self), [x + absolute(y) for x, y in zip(E(old.self), elems(old.other))]))

    @raises(TypeError, "refused_with_the_switch_off", state=lambda a, old: same_hist(old.self, a.self))
    def _(o):
        return Not(o.switch)


@contract(HB + ".frequencies", props=["C19", "C18", "C13"], name=HB + ".frequencies[setter, negative contents]")
class _freq_setter:
    bounded = True
    bound_note = "guards: 1D histogram with 2 bins; new contents and switch value symbolic"

    def configs():
        # (histogram dtype, dtype of the assigned values): the reported dtype stays the element type of the contents
        return [{"d": "float64", "v": "float64"}, {"d": "int64", "v": "float64"}, {"d": "float64", "v": "int64"}, {"d": "int16", "v": "int64"}]

    def inputs(b):
        me = mk_hist(b, "h", 1, 2, "gapped", b.cfg.d)
        return dict(self=me, values=b.array("x", (2,), b.cfg.v), switch=b.bool("switch"), config=b.module_attr("physt.config", "config"))

    @ensures("dtype_stays_the_element_type_of_contents_and_errors_widened_never_narrowed")
    def _(a, old, result):
        from .fill import dtype_consistent
        import numpy as np
        return And(dtype_consistent(a.self), attr(a.self, "_dtype") == np.promote_types(attr(old.self, "_dtype"), dtype_of(old.values)),
                   same(E(a.self), E(old.self)), same(M(a.self), M(old.self)))

    def invoke(I, fn, a, cfg):
        if I is not None:
            I.setattr(a.config, "free_arithmetics", a.switch)
            I.setattr(a.self, "frequencies", a.values)
            return None
        a.config.free_arithmetics = a.switch
        try:
            a.self.frequencies = a.values
        finally:
            a.config.free_arithmetics = False

    @ensures("stored")
    def _(a, old, result):
        return same(F(a.self), elems(old.values))

    @raises(ValueError, "negative_contents_refused_unless_the_switch_is_on", state=lambda a, old: same_hist(old.self, a.self))
    def _(o):
        return And(Not(o.switch), Or(*[x < 0 for x in elems(o.values)]))
