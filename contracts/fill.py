"""C03 / C04 / C13 / C14 / C18: find_bin, fill, fill_n of Histogram1D (bounded: bin count and batch size fixed)."""
from pyvc.vc import contract, ensures, raises
from pyvc.spec import *
from .common import *

K = H1


def in_gap(bins, v):
    m = len(bins)
    return And(v >= bins[0][0], v <= bins[m - 1][1], *[Not(inbin(bins, k, v)) for k in range(m)])


def binof_ok(bins, v, result):
    """`result` is the index find_bin / fill must report for value v"""
    m = len(bins)
    if result is None:
        return in_gap(bins, v)
    return And(Not(in_gap(bins, v)),
               Implies(v < bins[0][0], result == -1),
               Implies(v > bins[m - 1][1], result == m),
               *[Implies(inbin(bins, k, v), result == k) for k in range(m)])


def _fb_cfgs():
    return [{"m": m, "bins": kind} for m in (1, 2, 3) for kind in ("gapped", "fixed", "numpy")]


@contract(K + ".find_bin", props=["C03", "C15"])
class _find_bin:
    bounded = True
    bound_note = "find_bin/fill: bin count m<=3, contents symbolic"
    configs = staticmethod(_fb_cfgs)

    def inputs(b):
        binning = make_binning(b, "B", b.cfg.bins, b.cfg.m)
        return dict(self=hist1d(b, "h", binning, b.cfg.m), value=b.real("v"))

    @ensures("index_of_the_containing_bin")
    def _(a, old, result):
        return binof_ok(bins_of(attr(old.self, "_binnings")[0]), old.value, result)

    @ensures("nothing_changes")
    def _(a, old, result):
        return same_hist(old.self, a.self)


def _fill_cfgs():
    out = []
    for m in (1, 2):
        for kind in ("gapped", "fixed"):
            for dtype in ("int64", "float64"):
                for wk in ("default", "int", "float"):
                    for km in (True, False):
                        out.append({"m": m, "bins": kind, "dtype": dtype, "wk": wk, "keep_missed": km})
    out.append({"m": 3, "bins": "gapped", "dtype": "int64", "wk": "default", "keep_missed": True})
    return out


def weight_of(b):
    if b.cfg.wk == "default":
        return None
    w = b.int("w") if b.cfg.wk == "int" else b.real("w")
    b.assume(w >= 0)
    return w


def _w(old):
    return old.weight if hasattr(old, "weight") else 1


def stats_after_fill(s0, s1, v, w, inside):
    """C14: the recorded moments follow the raw value iff it landed in a bin"""
    return And(Implies(inside, And(s1.weight == s0.weight + w, s1.sum == s0.sum + w * v, s1.sum2 == s0.sum2 + w * v * v,
                                   s1.min == fmin(s0.min, v), s1.max == fmax(s0.max, v))),
               Implies(Not(inside), same(s0, s1)))


def dtype_consistent(h):
    return And(attr(h, "_dtype") == dtype_of(attr(h, "_frequencies")), attr(h, "_dtype") == dtype_of(attr(h, "_errors2")))


@contract(K + ".fill", props=["C03", "C13", "C14", "C18"])
class _fill:
    bounded = True
    bound_note = "find_bin/fill: bin count m<=3, contents symbolic"
    configs = staticmethod(_fill_cfgs)

    def thorough_extra():
        return [{"m": 4, "bins": "gapped", "dtype": "int64", "wk": "float", "keep_missed": True},
                {"m": 4, "bins": "fixed", "dtype": "float64", "wk": "default", "keep_missed": False}]

    def inputs(b):
        binning = make_binning(b, "B", b.cfg.bins, b.cfg.m)
        kw = dict(self=hist1d(b, "h", binning, b.cfg.m, dtype=b.cfg.dtype, keep_missed=b.cfg.keep_missed), value=b.real("v"))
        w = weight_of(b)
        if w is not None:
            kw["weight"] = w
        return kw

    @ensures("returns_the_bin_index")
    def _(a, old, result):
        return binof_ok(bins_of(attr(old.self, "_binnings")[0]), old.value, result)

    @ensures("contents_and_errors")
    def _(a, old, result):
        bins = bins_of(attr(old.self, "_binnings")[0])
        v, w = old.value, _w(old)
        f0, f1 = elems(attr(old.self, "_frequencies")), elems(attr(a.self, "_frequencies"))
        e0, e1 = elems(attr(old.self, "_errors2")), elems(attr(a.self, "_errors2"))
        return And(*[And(f1[k] == f0[k] + If(inbin(bins, k, v), w, 0), e1[k] == e0[k] + If(inbin(bins, k, v), w * w, 0))
                     for k in range(len(bins))])

    @ensures("missed_values")
    def _(a, old, result):
        bins = bins_of(attr(old.self, "_binnings")[0])
        v, w = old.value, _w(old)
        m0, m1 = elems(attr(old.self, "_missed")), elems(attr(a.self, "_missed"))
        if not old.self.keep_missed:
            return same(m0, m1)      # "values outside the bins change nothing at all"
        gap = in_gap(bins, v)
        return And(Implies(Not(gap), And(m1[0] == m0[0] + If(v < bins[0][0], w, 0), m1[1] == m0[1] + If(v > bins[-1][1], w, 0))),
                   Implies(gap, And(isnan(m1[0]), isnan(m1[1]))), same(m0[2], m1[2]))

    @ensures("statistics_follow_the_raw_value")
    def _(a, old, result):
        bins = bins_of(attr(old.self, "_binnings")[0])
        inside = Or(*[inbin(bins, k, old.value) for k in range(len(bins))])
        return stats_after_fill(attr(old.self, "_stats"), attr(a.self, "_stats"), old.value, _w(old), inside)

    @ensures("dtype_consistent_and_promoted")
    def _(a, old, result):
        want = "float64" if (hasattr(old, "weight") and typename(old.weight) == "float") else str(attr(old.self, "_dtype"))
        return And(dtype_consistent(a.self), str(attr(a.self, "_dtype")) == want)

    @ensures("bins_untouched")
    def _(a, old, result):
        return same_binning(attr(old.self, "_binnings")[0], attr(a.self, "_binnings")[0])



# ---------------------------------------------------------------------------------------------- adaptive fill (C04)

def _afill_cfgs():
    return [{"c": c, "dtype": dt, "wk": wk} for c in (0, 1, 2) for dt in ("int64",) for wk in ("default", "float")] + \
           [{"c": 1, "dtype": "float64", "wk": "int"}] + \
           [{"c": c, "dtype": "int64", "wk": "default", "warm": True} for c in (0, 1, 2)] + [{"c": 1, "dtype": "int32", "wk": "default"}]


@contract(K + ".fill", props=["C04", "C03", "C18", "C13", "C16"], name=K + ".fill[adaptive]")
class _fill_adaptive:
    bounded = True
    bound_note = "adaptive fill: initial bin count <= 2, growth by at most 4 bins per call; width, origin, value symbolic"
    configs = staticmethod(_afill_cfgs)
    extent_cap = 6

    def inputs(b):
        binning = fixed_width(b, "B", count=b.cfg.c, adaptive=True)
        if getattr(b.cfg, "warm", False):       # the bins have been looked at before the fill
            warm(b, binning)
        kw = dict(self=hist1d(b, "h", binning, b.cfg.c, dtype=b.cfg.dtype), value=b.real("v"))
        w = weight_of(b)
        if w is not None:
            kw["weight"] = w
        return kw

    @ensures("value_lands_in_a_bin_and_nothing_is_lost")
    def _(a, old, result):
        nb = attr(a.self, "_binnings")[0]
        f1 = elems(attr(a.self, "_frequencies"))
        bins = bins_of(nb, len(f1))
        v, w = old.value, _w(old)
        return And(attr(nb, "_bin_count") == len(f1), Or(*[inbin(bins, k, v, closed_last=False) for k in range(len(bins))]),
                   total(f1) == total(attr(old.self, "_frequencies")) + w,
                   same(attr(old.self, "_missed"), attr(a.self, "_missed")))

    @ensures("old_contents_stay_on_their_interval")
    def _(a, old, result):
        ob, nb = attr(old.self, "_binnings")[0], attr(a.self, "_binnings")[0]
        f0, f1 = elems(attr(old.self, "_frequencies")), elems(attr(a.self, "_frequencies"))
        shift = (attr(ob, "_times_min") - attr(nb, "_times_min")) if f0 else 0
        e0, e1 = elems(attr(old.self, "_errors2")), elems(attr(a.self, "_errors2"))
        bins = bins_of(nb, len(f1))
        v, w = old.value, _w(old)
        if not f0:
            return And(*[f1[j] == If(inbin(bins, j, v, False), w, 0) for j in range(len(f1))])
        cs = []
        for j in range(len(f1)):
            # content of new bin j: the old bin i with i + shift == j (if any) plus the new entry
            oldpart = 0
            for i in range(len(f0)):
                oldpart = oldpart + If(shift == j - i, f0[i], 0)
            olde = 0
            for i in range(len(e0)):
                olde = olde + If(shift == j - i, e0[i], 0)
            cs.append(f1[j] == oldpart + If(inbin(bins, j, v, False), w, 0))
            cs.append(e1[j] == olde + If(inbin(bins, j, v, False), w * w, 0))
        return And(shift >= 0, *cs)

    @ensures("same_grid")
    def _(a, old, result):
        ob, nb = attr(old.self, "_binnings")[0], attr(a.self, "_binnings")[0]
        return And(attr(nb, "_bin_width") == attr(ob, "_bin_width"), attr(nb, "_shift") == attr(ob, "_shift"),
                   attr(nb, "_bin_count") == len(elems(attr(a.self, "_frequencies"))))

    @ensures("the_histogram_stays_well_formed_contents_errors_dtype_and_every_view_of_the_bins_agree")
    def _(a, old, result):
        return well_formed(a.self)


# ---------------------------------------------------------------------------------------------- fill_n

def _filln_cfgs():
    out = []
    for n in (0, 1, 2):
        for m in (1, 2):
            for wk in (None, "float64", "int64"):
                out.append({"n": n, "m": m, "bins": "gapped" if m == 2 else "fixed", "dtype": "int64" if wk != "float64" else "float64",
                            "weights": wk, "nan": False, "keep_missed": True})
    out.append({"n": 2, "m": 2, "bins": "fixed", "dtype": "int64", "weights": None, "nan": False, "keep_missed": False})
    out.append({"n": 2, "m": 1, "bins": "fixed", "dtype": "float64", "weights": "float64", "nan": True, "keep_missed": True})
    out.append({"n": 2, "m": 2, "bins": "fixed", "dtype": "int64", "weights": "float64", "nan": False, "keep_missed": True})
    return out


@contract(K + ".fill_n", props=["C03", "C13", "C14", "C18"])
class _fill_n:
    bounded = True
    bound_note = "fill_n: batch size n<=2, bin count m<=2, contents symbolic"
    configs = staticmethod(_filln_cfgs)

    def thorough_extra():
        return [{"n": 3, "m": 2, "bins": "gapped", "dtype": "float64", "weights": "float64", "nan": False, "keep_missed": True},
                {"n": 3, "m": 1, "bins": "fixed", "dtype": "int64", "weights": None, "nan": False, "keep_missed": True}]

    def inputs(b):
        binning = make_binning(b, "B", b.cfg.bins, b.cfg.m)
        kw = dict(self=hist1d(b, "h", binning, b.cfg.m, dtype=b.cfg.dtype, keep_missed=b.cfg.keep_missed),
                  values=b.array("d", (b.cfg.n,), nan=b.cfg.nan))
        if b.cfg.weights:
            kw["weights"] = b.array("w", (b.cfg.n,), b.cfg.weights)
            nonneg(b, kw["weights"])
        return kw

    @ensures("equals_folding_fill_over_the_batch")
    def _(a, old, result):
        bins = bins_of(attr(old.self, "_binnings")[0])
        d = elems(old.values)
        w = elems(old.weights) if hasattr(old, "weights") else [1] * len(d)
        f0, f1 = elems(attr(old.self, "_frequencies")), elems(attr(a.self, "_frequencies"))
        e0, e1 = elems(attr(old.self, "_errors2")), elems(attr(a.self, "_errors2"))
        cs = []
        for k in range(len(bins)):
            addf, adde = 0, 0
            for x, wt in zip(d, w):
                ok = And(Not(isnan(x)), inbin(bins, k, x))
                addf = addf + If(ok, wt, 0)
                adde = adde + If(ok, wt * wt, 0)
            cs.append(f1[k] == f0[k] + addf)
            cs.append(e1[k] == e0[k] + adde)
        return And(*cs)

    @ensures("missed_values")
    def _(a, old, result):
        bins = bins_of(attr(old.self, "_binnings")[0])
        d = elems(old.values)
        w = elems(old.weights) if hasattr(old, "weights") else [1] * len(d)
        m0, m1 = elems(attr(old.self, "_missed")), elems(attr(a.self, "_missed"))
        if not old.self.keep_missed:
            return same(m0, m1)
        exact = And(*[bins[k][1] == bins[k + 1][0] for k in range(len(bins) - 1)]) if len(bins) > 1 else True
        under = 0
        over = 0
        for x, wt in zip(d, w):
            under = under + If(And(Not(isnan(x)), x < bins[0][0]), wt, 0)
            over = over + If(And(Not(isnan(x)), x > bins[-1][1]), wt, 0)
        nonempty = Or(*[Not(isnan(x)) for x in d]) if d else False      # an empty batch (after dropping NaN) changes nothing
        return And(Implies(exact, And(m1[0] == m0[0] + under, m1[1] == m0[1] + over)),
                   Implies(And(Not(exact), nonempty), And(isnan(m1[0]), isnan(m1[1]))),
                   Implies(Not(nonempty), same(m0, m1)))

    @ensures("statistics_accumulate")
    def _(a, old, result):
        # fill_n adds the moments of *all* non-NaN values of the batch (the property speaks about values within the bins)
        d = elems(old.values)
        w = elems(old.weights) if hasattr(old, "weights") else [1] * len(d)
        s0, s1 = attr(old.self, "_stats"), attr(a.self, "_stats")
        sw = s0.weight
        sx = s0.sum
        sxx = s0.sum2
        for x, wt in zip(d, w):
            ok = Not(isnan(x))
            sw = sw + If(ok, wt, 0)
            sx = sx + If(ok, wt * x, 0)
            sxx = sxx + If(ok, wt * x * x, 0)
        return And(s1.weight == sw, s1.sum == sx, s1.sum2 == sxx)

    @ensures("dtype_consistent")
    def _(a, old, result):
        return dtype_consistent(a.self)

    known = {
        "missed_values": [("F19b", lambda o: micro_gap_(bins_of(attr(o.self, "_binnings")[0])))],
    }


def exactly_consecutive_(bins):
    return And(*[bins[k][1] == bins[k + 1][0] for k in range(len(bins) - 1)]) if len(bins) > 1 else True


def micro_gap_(bins, rtol=1e-5, atol=1e-8):
    cs = []
    for k in range(len(bins) - 1):
        r, l = bins[k][1], bins[k + 1][0]
        cs.append(And(r != l, absolute(l - r) <= atol + rtol * absolute(r)))
    return Or(*cs) if cs else False
