"""Loops over arrays of symbolic extent, cut at sidecar invariants (DESIGN 2.6): the histogramming core
`calculate_1d_frequencies` for ANY number of entries and ANY number of bins.  (C01)

The invariant is stated over the function's own locals (the view `v`); `v.k` iterations are done, `v.n` is the length of
the iterated array.  The hints are instances of lemmas proved by induction on every run (pyvc.induct)."""
import numpy as np
import z3
from pyvc.vc import contract, ensures, raises, loop_invariant
from pyvc.spec import *
from pyvc import induct
from pyvc.values import term_of, raw, Sym, TArr
from pyvc.tarr import kind_of_dtype
from .common import *
from .unbounded import static_binning_t, nbins

FREQ = "physt._construction:calculate_1d_frequencies"


def _micro_gap(bins, rtol=1e-5, atol=1e-8):
    """some neighbouring edges differ, but by no more than np.allclose's tolerance"""
    n = shape_of(bins)[0]
    return Not(forall(0, n - 1, lambda k: Not(And(bins[k, 1] != bins[k + 1, 0],
                                                  absolute(bins[k + 1, 0] - bins[k, 1]) <= atol + rtol * absolute(bins[k, 1])))))


def _known(cond):
    """the path condition of the current path implies cond"""
    from pyvc.values import CURRENT
    cond = raw(cond)
    if isinstance(cond, bool):
        return cond
    return CURRENT["interp"].ctx.entails(term_of(cond, "bool"))


def _hints(v):
    """after the body of iteration k: what the three slice sums of this iteration are, as weighted counts"""
    D, W = v.data_array, v.weights_array
    kd = kind_of_dtype(W.dtype)
    N = term_of(raw(D.shape[0]), "int")
    lo, hi = term_of(raw(v.bin[0]), "float"), term_of(raw(v.bin[1]), "float")
    last = v.k == v.n - 1
    lt = term_of(last, "bool") if isinstance(last, Sym) else z3.BoolVal(bool(last))
    a, b = term_of(raw(v.start), "int"), term_of(raw(v.stop), "int")
    from pyvc.tarr import square_term
    W2 = square_term(W.term)
    out = [(induct.slice_sum_lemma(kd), (D.term, W.term, N, lo, hi, lt, a, b)),
           (induct.slice_sum_lemma(kd), (D.term, W2, N, lo, hi, lt, a, b))]
    if _known(v.k == 0):
        out.append((induct.below_lemma(kd), (D.term, W.term, N, lo, a)))
    if _known(last):
        out.append((induct.above_lemma(kd), (D.term, W.term, N, hi, b)))
    return out


def _exit_hints(v):
    """after the loop: the sorted copies are the same permutation of the caller's arrays, so every weighted count over them
    is the weighted count over the caller's data (the permutation lemma: assumed, see pyvc.induct)"""
    from pyvc.tarr import square_term
    from pyvc.values import CURRENT
    D, DA, WA = v.data, v.data_array, v.weights_array
    kd = kind_of_dtype(WA.dtype)
    N = term_of(raw(D.shape[0]), "int")
    out = []
    # the accounting identity (exactly consecutive bins): a case split, then the lemmas whose hypotheses hold on that case
    B, nb = v.bins.term, term_of(raw(v.bins.shape[0]), "int")
    k = z3.Int("%cons_k")
    consecutive = z3.ForAll([k], z3.Implies(z3.And(k >= 0, k < nb - 1), z3.Select(B, k, 1) == z3.Select(B, k + 1, 0)))
    if kind_of_dtype(v.frequencies.dtype) == kd and CURRENT["interp"].ctx.branch(consecutive):
        out.append((induct.monotone_lemma(), (B, nb)))
        out.append((induct.bins_sum_lemma(kd), (DA.term, WA.term, N, B, nb, v.frequencies.term)))
        out.append((induct.partition_lemma(kd), (DA.term, WA.term, N, z3.Select(B, 0, 0), z3.Select(B, nb - 1, 1))))
    if not isinstance(getattr(v, "weights", None), TArr):
        out.append((induct.constant_sum_lemma(), (N,)))
    # non-negative weights give non-negative contents (conditional instances: the hypothesis is the caller's business)
    out.append(("squares", WA.term))
    for w in (WA.term, square_term(WA.term)):
        out.append(("instance", induct.nonneg_lemma(kd), (DA.term, w, N)))
    for which in ("below", "above"):
        out.append(("instance", induct.nonneg_side_lemma(kd, which), (DA.term, WA.term, N)))
    if v.already_sorted is True or DA.gather_of is None:         # data_array = data[sort_order]
        return out
    p = DA.gather_of[1]
    W = v.weights.term if isinstance(getattr(v, "weights", None), TArr) else z3.K(z3.IntSort(), z3.IntVal(1))
    out += [(induct.permutation_lemma(kd), (D.term, W, DA.term, WA.term, p, N)), ("squares", WA.term)]
    if not z3.is_K(W):
        out.append(("squares", W))
    out.append((induct.permutation_lemma(kd), (D.term, square_term(W), DA.term, square_term(WA.term), p, N)))
    return out


@loop_invariant(FREQ, 0, havoc={"frequencies": "array", "errors2": "array", "underflow": "like:weights_array", "overflow": "like:weights_array"},
                hints=_hints, exit_hints=_exit_hints)
def _inv(v):
    D, W, bins, n, k = v.data_array, v.weights_array, v.bins, v.n, v.k
    f, e = v.frequencies, v.errors2
    return And(forall(0, k, lambda j: And(f[j] == wsum(D, W, bins[j, 0], bins[j, 1], j == n - 1),
                                          e[j] == wsum(D, W, bins[j, 0], bins[j, 1], j == n - 1, square=True))),
               forall(k, n, lambda j: And(f[j] == 0, e[j] == 0)),
               Implies(k >= 1, lambda: v.underflow == wside("below", D, W, bins[0, 0])),
               Implies(And(k >= n, n >= 1), lambda: v.overflow == wside("above", D, W, bins[n - 1, 1])))


@contract(FREQ, props=["C01"], name=FREQ + "[any number of entries and bins]")
class _freq_u:
    probe = "quantifier-free"
    lemmas = [induct.slice_sum_lemma(k) for k in ("int", "float")] + [induct.below_lemma(k) for k in ("int", "float")] \
        + [induct.above_lemma(k) for k in ("int", "float")] + [induct.adjacent_lemma(k) for k in ("int", "float")] \
        + [induct.partition_lemma(k) for k in ("int", "float")] + [induct.bins_sum_lemma(k) for k in ("int", "float")] \
        + [induct.monotone_lemma(), induct.constant_sum_lemma()] + [induct.nonneg_lemma(k) for k in ("int", "float")] \
        + [induct.nonneg_side_lemma(k, w) for k in ("int", "float") for w in ("below", "above")]
    known = {
        # F19b: is_consecutive() compares with np.allclose: bins whose edges differ by less than the tolerance are treated as
        # consecutive, a value in the micro-gap is counted nowhere while under/overflow read as numbers
        "for_consecutive_bins_underflow_and_overflow_are_the_weight_below_and_above_otherwise_unknown":
            [("F19b", lambda o: _micro_gap(attr(o.binning, "_bins")))],
    }

    def configs():
        return [{"w": "none", "sorted": False}, {"w": "float", "sorted": False}, {"w": "int", "sorted": True}]

    def thorough_configs():
        return [{"w": w, "sorted": s} for w in ("none", "float", "int") for s in (True, False)]

    def inputs(b):
        n, N = nbins(b), b.int("N")
        b.assume(N >= 0)
        data = b.tarray("data", (N,))
        if b.cfg.sorted:
            b.assume(forall(0, N - 1, lambda i: data[i] <= data[i + 1]))
        kw = dict(data=data, binning=static_binning_t(b, "B", n), already_sorted=b.cfg.sorted)
        if b.cfg.w != "none":
            kw["weights"] = b.tarray("weights", (N,), "float64" if b.cfg.w == "float" else "int64")
        return kw

    @raises(ValueError, "no_bins")
    def _(a):
        return shape_of(attr(a.binning, "_bins"))[0] == 0

    @ensures("for_consecutive_bins_underflow_and_overflow_are_the_weight_below_and_above_otherwise_unknown")
    def _(a, old, result):
        bins = attr(old.binning, "_bins")
        n = shape_of(bins)[0]
        W = getattr(old, "weights", None)
        cons = forall(0, n - 1, lambda k: bins[k, 1] == bins[k + 1, 0])
        return And(Implies(cons, lambda: And(result[2] == wside("below", old.data, W, bins[0, 0]),
                                             result[3] == wside("above", old.data, W, bins[n - 1, 1]))),
                   Implies(Not(cons), lambda: And(isnan(result[2]), isnan(result[3]))))

    @ensures("for_exactly_consecutive_bins_contents_plus_underflow_plus_overflow_is_the_total_input_weight")
    def _(a, old, result):
        bins = attr(old.binning, "_bins")
        n = shape_of(bins)[0]
        W = getattr(old, "weights", None)
        cons = forall(0, n - 1, lambda k: bins[k, 1] == bins[k + 1, 0])
        total_weight = shape_of(old.data)[0] if W is None else total_t(W)
        return Implies(cons, lambda: total_t(result[0]) + result[2] + result[3] == total_weight)

    @ensures("the_inputs_are_not_modified")
    def _(a, old, result):
        W = getattr(old, "weights", None)
        return And(same(a.data, old.data), True if W is None else same(a.weights, W), same(attr(a.binning, "_bins"), attr(old.binning, "_bins")))

    @ensures("every_bin_holds_the_weight_of_exactly_the_entries_inside_it_last_bin_closed")
    def _(a, old, result):
        f, e = result[0], result[1]
        bins = attr(old.binning, "_bins")
        n = shape_of(bins)[0]
        W = getattr(old, "weights", None)
        return And(shape_of(f)[0] == n, shape_of(e)[0] == n,
                   forall(0, n, lambda j: And(f[j] == wsum(old.data, W, bins[j, 0], bins[j, 1], j == n - 1),
                                              e[j] == wsum(old.data, W, bins[j, 0], bins[j, 1], j == n - 1, square=True))))


@contract("physt._facade:h1", props=["C01"], name="physt._facade:h1[any number of entries and bins]")
class _h1_u:
    """the facade end to end for a 1-D array of finite floats of ANY length and a binning object with ANY number of bins"""
    probe = "quantifier-free"
    lemmas = _freq_u.lemmas
    known = {
        "underflow_and_overflow_are_the_weight_below_and_above_for_consecutive_bins_otherwise_unknown":
            [("F19b", lambda o: _micro_gap(attr(o.bins, "_bins")))],
    }

    def configs():
        return [{"w": "none", "dropna": True, "keep_missed": True}, {"w": "float", "dropna": False, "keep_missed": True},
                {"w": "float", "dropna": True, "keep_missed": False}]

    def thorough_configs():
        return [{"w": w, "dropna": d, "keep_missed": k} for w in ("none", "float", "int") for d in (True, False) for k in (True, False)]

    def inputs(b):
        n, N = nbins(b), b.int("N")
        b.assume(N >= 0)
        kw = dict(data=b.tarray("data", (N,)), bins=static_binning_t(b, "B", n), dropna=b.cfg.dropna, keep_missed=b.cfg.keep_missed)
        if b.cfg.w != "none":
            kw["weights"] = b.tarray("weights", (N,), "float64" if b.cfg.w == "float" else "int64")
            b.assume(forall(0, N, lambda i: kw["weights"][i] >= 0))       # requires: weights >= 0 (C18: negative contents are refused)
        return kw

    @raises(ValueError, "no_bins")
    def _(a):
        return shape_of(attr(a.bins, "_bins"))[0] == 0

    @ensures("every_bin_holds_the_weight_of_exactly_the_entries_inside_it_last_bin_closed")
    def _(a, old, result):
        f, e = attr(result, "_frequencies"), attr(result, "_errors2")
        bins = attr(old.bins, "_bins")
        n = shape_of(bins)[0]
        W = getattr(old, "weights", None)
        return And(typename(result) == "Histogram1D", shape_of(f)[0] == n, shape_of(e)[0] == n,
                   forall(0, n, lambda j: And(f[j] == wsum(old.data, W, bins[j, 0], bins[j, 1], j == n - 1),
                                              e[j] == wsum(old.data, W, bins[j, 0], bins[j, 1], j == n - 1, square=True))))

    @ensures("underflow_and_overflow_are_the_weight_below_and_above_for_consecutive_bins_otherwise_unknown")
    def _(a, old, result):
        bins = attr(old.bins, "_bins")
        n = shape_of(bins)[0]
        W = getattr(old, "weights", None)
        m = elems(attr(result, "_missed"))
        if not old.keep_missed:
            return And(m[0] == 0, m[1] == 0, m[2] == 0)
        cons = forall(0, n - 1, lambda k: bins[k, 1] == bins[k + 1, 0])
        return And(Implies(cons, lambda: And(m[0] == wside("below", old.data, W, bins[0, 0]), m[1] == wside("above", old.data, W, bins[n - 1, 1]))),
                   Implies(Not(cons), lambda: And(isnan(m[0]), isnan(m[1]))), m[2] == 0)

    @ensures("for_exactly_consecutive_bins_total_plus_underflow_plus_overflow_is_the_total_input_weight")
    def _(a, old, result):
        bins = attr(old.bins, "_bins")
        n = shape_of(bins)[0]
        W = getattr(old, "weights", None)
        m = elems(attr(result, "_missed"))
        if not old.keep_missed:
            return True
        cons = forall(0, n - 1, lambda k: bins[k, 1] == bins[k + 1, 0])
        total_weight = shape_of(old.data)[0] if W is None else total_t(W)
        return Implies(cons, lambda: total_t(attr(result, "_frequencies")) + m[0] + m[1] == total_weight)

    @ensures("the_histogram_uses_the_given_bins_and_the_inputs_are_not_modified")
    def _(a, old, result):
        W = getattr(old, "weights", None)
        return And(same(attr(attr(result, "_binnings")[0], "_bins"), attr(old.bins, "_bins")),
                   same(a.data, old.data), True if W is None else same(a.weights, W))


H1K = "physt.histogram1d:Histogram1D"


@contract(H1K + ".fill_n", props=["C03", "C13", "C14"], name=H1K + ".fill_n[any batch length and bin count]")
class _fill_n_u:
    """a batch of ANY length into a (non-adaptive) histogram with ANY number of bins: every bin gains exactly the weight of the
    batch entries inside it -- which is what folding fill() over the batch adds"""
    probe = "quantifier-free"
    lemmas = _freq_u.lemmas + [induct.sum_add_lemma(k) for k in ("int", "float")]
    known = {
        "underflow_and_overflow_gain_the_weight_below_and_above_for_consecutive_bins_otherwise_unknown":
            [("F19b", lambda o: _micro_gap(attr(attr(o.self, "_binnings")[0], "_bins")))],
    }

    def configs():
        return [{"dtype": "int64", "w": "none"}, {"dtype": "float64", "w": "float"}, {"dtype": "int64", "w": "float"}]

    def thorough_configs():
        return [{"dtype": d, "w": w} for d in ("int64", "float64") for w in ("none", "float", "int")]

    def inputs(b):
        from .unbounded import hist1d_t
        n, N = nbins(b), b.int("N")
        b.assume(n >= 1)
        b.assume(N >= 0)
        kw = dict(self=hist1d_t(b, "h", n, b.cfg.dtype), values=b.tarray("values", (N,)))
        if b.cfg.w != "none":
            kw["weights"] = b.tarray("weights", (N,), "float64" if b.cfg.w == "float" else "int64")
            b.assume(forall(0, N, lambda i: kw["weights"][i] >= 0))
        return kw

    def using(a, old, result):
        """for exactly consecutive bins: the gained contents add up to the weight inside the bins (bins-sum lemma), inside + below +
        above is the whole batch (partition lemma), and the sum of old + gained contents is the sum of the sums (sum-add lemma)"""
        from pyvc.values import CURRENT
        from pyvc.tarr import kind_of_dtype as kod
        bins = attr(attr(old.self, "_binnings")[0], "_bins")
        B, nb = bins.term, term_of(raw(shape_of(bins)[0]), "int")
        N = term_of(raw(shape_of(old.values)[0]), "int")
        W = getattr(old, "weights", None)
        f0, f1 = attr(old.self, "_frequencies"), attr(a.self, "_frequencies")
        kd = "int" if W is None else kod(W.dtype)
        if kod(f1.dtype) != kd or kod(f0.dtype) != kd:
            return []          # the weights were promoted into the contents' type: the identity is stated for equal kinds only
        k = z3.Int("%cons_k")
        consecutive = z3.ForAll([k], z3.Implies(z3.And(k >= 0, k < nb - 1), z3.Select(B, k, 1) == z3.Select(B, k + 1, 0)))
        if not CURRENT["interp"].ctx.branch(consecutive):
            return []
        Wt = z3.K(z3.IntSort(), z3.IntVal(1)) if W is None else W.term
        D = old.values.term
        j = z3.Int("%gain_j")
        G = z3.Lambda([j], induct.wsum_fn(kd)(D, Wt, z3.Select(B, j, 0), z3.Select(B, j, 1), j == nb - 1, N))
        out = [(induct.monotone_lemma(), (B, nb)), (induct.bins_sum_lemma(kd), (D, Wt, N, B, nb, G)),
               (induct.partition_lemma(kd), (D, Wt, N, z3.Select(B, 0, 0), z3.Select(B, nb - 1, 1))),
               (induct.sum_add_lemma(kd), (f0.term, G, f1.term, nb))]
        if W is None:
            out.append((induct.constant_sum_lemma(), (N,)))
        return out

    @ensures("for_exactly_consecutive_bins_the_histogram_gains_exactly_the_weight_of_the_batch")
    def _(a, old, result):
        bins = attr(attr(old.self, "_binnings")[0], "_bins")
        n, N = shape_of(bins)[0], shape_of(old.values)[0]
        W = getattr(old, "weights", None)
        f0, f1 = attr(old.self, "_frequencies"), attr(a.self, "_frequencies")
        wkind = "i" if W is None else dtype_of(W).kind
        if not (dtype_of(f0).kind == dtype_of(f1).kind == wkind):
            return True      # stated where contents and weights are of one kind (the lemmas are per kind); mixed kinds: bounded contracts
        m0, m1 = elems(attr(old.self, "_missed")), elems(attr(a.self, "_missed"))
        cons = forall(0, n - 1, lambda k: bins[k, 1] == bins[k + 1, 0])
        batch = N if W is None else total_t(W)
        return Implies(And(cons, N > 0), lambda: total_t(f1) + m1[0] + m1[1] == total_t(f0) + m0[0] + m0[1] + batch)

    @ensures("every_bin_gains_the_weight_of_exactly_the_batch_entries_inside_it")
    def _(a, old, result):
        bins = attr(attr(old.self, "_binnings")[0], "_bins")
        n = shape_of(bins)[0]
        W = getattr(old, "weights", None)
        f0, f1, e0, e1 = attr(old.self, "_frequencies"), attr(a.self, "_frequencies"), attr(old.self, "_errors2"), attr(a.self, "_errors2")
        return And(shape_of(f1)[0] == n, shape_of(e1)[0] == n,
                   forall(0, n, lambda j: And(f1[j] == f0[j] + wsum(old.values, W, bins[j, 0], bins[j, 1], j == n - 1),
                                              e1[j] == e0[j] + wsum(old.values, W, bins[j, 0], bins[j, 1], j == n - 1, square=True))))

    @ensures("underflow_and_overflow_gain_the_weight_below_and_above_for_consecutive_bins_otherwise_unknown")
    def _(a, old, result):
        bins = attr(attr(old.self, "_binnings")[0], "_bins")
        n, N = shape_of(bins)[0], shape_of(old.values)[0]
        W = getattr(old, "weights", None)
        m0, m1 = elems(attr(old.self, "_missed")), elems(attr(a.self, "_missed"))
        cons = forall(0, n - 1, lambda k: bins[k, 1] == bins[k + 1, 0])
        return Implies(N > 0, lambda: And(
            Implies(cons, lambda: And(m1[0] == m0[0] + wside("below", old.values, W, bins[0, 0]), m1[1] == m0[1] + wside("above", old.values, W, bins[n - 1, 1]))),
            Implies(Not(cons), lambda: And(isnan(m1[0]), isnan(m1[1]))), m1[2] == m0[2]))

    @ensures("an_empty_batch_changes_nothing_and_the_batch_is_not_modified")
    def _(a, old, result):
        N = shape_of(old.values)[0]
        W = getattr(old, "weights", None)
        return And(Implies(N == 0, lambda: And(same(attr(old.self, "_frequencies"), attr(a.self, "_frequencies")),
                                               same(attr(old.self, "_errors2"), attr(a.self, "_errors2")),
                                               same(elems(attr(old.self, "_missed")), elems(attr(a.self, "_missed"))))),
                   same(a.values, old.values), True if W is None else same(a.weights, W), result is None)

    @ensures("dtype_promoted_by_the_weights_and_consistent")
    def _(a, old, result):
        N = shape_of(old.values)[0]
        W = getattr(old, "weights", None)
        want = attr(old.self, "_dtype") if W is None else np.promote_types(attr(old.self, "_dtype"), dtype_of(W))
        dt = attr(a.self, "_dtype")
        return And(dtype_of(attr(a.self, "_frequencies")) == dt, dtype_of(attr(a.self, "_errors2")) == dt,
                   Implies(N > 0, dt == want))
