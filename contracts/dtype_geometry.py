"""C13 (explicit dtype changes) and C16 (densities, bin geometry, cumulative values).  Bounded extents."""
import itertools
import numpy as np
from pyvc.vc import contract, ensures, raises
from pyvc.spec import *
from .common import *
from .arith import F, E, M, mk_hist
from .fill import dtype_consistent

HB = "physt.histogram_base:HistogramBase"
H1K = "physt.histogram1d:Histogram1D"
HNDK = "physt.histogram_nd:HistogramND"
DTYPES = ["int16", "int32", "int64", "float16", "float32", "float64", "float128"]
BOUND = "dtype/geometry: 1D with m<=3 bins, ND shape (2,2); contents and edges symbolic"


def _sd_cfgs():
    return [{"d1": a, "d2": b} for a in DTYPES for b in DTYPES if a != b]


def limits(name):
    dt = np.dtype(name)
    if dt.kind == "i":
        info = np.iinfo(dt)
        return int(info.min), int(info.max)
    info = np.finfo(dt)
    return float(info.min), float(info.max)


def in_range(x, name):
    lo, hi = limits(name)
    cs = []
    if hi != float("inf"):
        cs.append(x <= hi)
    if lo != float("-inf"):
        cs.append(x >= lo)
    return And(*cs) if cs else True


@contract(HB + ".set_dtype", props=["C13", "C18"])
class _set_dtype:
    bounded = True
    bound_note = BOUND
    configs = staticmethod(_sd_cfgs)

    def inputs(b):
        c = b.cfg
        h = mk_hist(b, "h", 1, 2, "fixed", c.d1)
        lo, hi = limits(c.d1)
        for x in F(h) + E(h) + M(h):            # requires: the stored values are representable in the current dtype
            b.assume(in_range(x, c.d1))
        return dict(self=h, value=c.d2)

    def acceptable(o):
        d1, d2 = np.dtype(attr(o.self, "_dtype")), np.dtype(o.value)
        vals = F(o.self) + E(o.self)
        if np.can_cast(d1, d2):
            return True
        cs = [in_range(x, o.value) for x in vals]
        if d2.kind == "i" and d1.kind == "f":
            cs += [is_int_valued(x) for x in vals]
        return And(*cs)

    @ensures("accepted_only_when_lossless_then_values_kept")
    def _(a, old, result):
        return And(_set_dtype.acceptable(old), dtype_consistent(a.self), attr(a.self, "_dtype") == np.dtype(old.value),
                   same(F(a.self), F(old.self)), same(E(a.self), E(old.self)))

    @raises(ValueError, "lossy_change_refused_nothing_changes", state=lambda a, old: same_hist(old.self, a.self))
    def _(o):
        return Not(_set_dtype.acceptable(o))


@contract(HB + "._eval_dtype", props=["C13"])
class _eval_dtype:
    def configs():
        return [{"v": v} for v in ("int16", "int64", "float32", "float64", "float128", "bool", "complex128", "U3", "uint8")]

    def inputs(b):
        return dict(cls=b.module_attr("physt.histogram1d", "Histogram1D"), value=b.cfg.v)

    def invoke(I, fn, a, cfg):
        if I is not None:
            return I.call(I.getattr(a.cls, "_eval_dtype"), [a.value], {})
        return a.cls._eval_dtype(a.value)

    @ensures("canonical_dtype_and_its_limits")
    def _(a, old, result):
        dt, info = result
        return And(dt == np.dtype(old.value), np.dtype(old.value).kind in "iuf")

    @raises(ValueError, "only_integer_and_floating_types", state=None)
    def _(o):
        return np.dtype(o.value).kind not in "iuf"


# ---------------------------------------------------------------------------------------------- geometry (C16)

@contract(HB + ".densities", props=["C16"], name="Histogram1D geometry")
class _geom1d:
    bounded = True
    bound_note = BOUND

    def configs():
        return [{"m": 3, "kind": "gapped", "dtype": "int64"}, {"m": 2, "kind": "fixed", "dtype": "float64"}, {"m": 1, "kind": "numpy", "dtype": "int64"},
                {"m": 2, "kind": "fixed", "dtype": "int16"}]

    def inputs(b):
        c = b.cfg
        return dict(self=mk_hist(b, "h", 1, c.m, c.kind, c.dtype))

    def invoke(I, fn, a, cfg):
        names = ["densities", "bin_sizes", "bin_widths", "bin_centers", "bin_left_edges", "bin_right_edges", "total_width",
                 "cumulative_frequencies", "total", "min_edge", "max_edge", "errors"]
        if I is not None:
            return {n: I.getattr(a.self, n) for n in names}
        return {n: getattr(a.self, n) for n in names}

    @ensures("densities_times_sizes_are_frequencies")
    def _(a, old, result):
        bins = bins_of(attr(old.self, "_binnings")[0])
        f = F(old.self)
        d, s, w = elems(result["densities"]), elems(result["bin_sizes"]), elems(result["bin_widths"])
        return And(*[And(s[k] == bins[k][1] - bins[k][0], w[k] == s[k], close(d[k] * s[k], f[k])) for k in range(len(bins))])

    @ensures("edges_centres_widths_consistent")
    def _(a, old, result):
        bins = bins_of(attr(old.self, "_binnings")[0])
        l, r, c = elems(result["bin_left_edges"]), elems(result["bin_right_edges"]), elems(result["bin_centers"])
        tw = 0
        for lo, hi in bins:
            tw = tw + (hi - lo)
        return And(*[And(l[k] == bins[k][0], r[k] == bins[k][1], 2 * c[k] == l[k] + r[k]) for k in range(len(bins))],
                   result["total_width"] == tw, result["min_edge"] == bins[0][0], result["max_edge"] == bins[-1][1])

    @ensures("cumulative_is_the_running_sum_ending_at_total")
    def _(a, old, result):
        f = F(old.self)
        cum = elems(result["cumulative_frequencies"])
        # the running sum of a narrow integer histogram must not be accumulated in the narrow content dtype (it would wrap before it
        # reaches `total`): it has numpy's default accumulator type, the type `total` is computed in
        wide = np.ones(1, dtype_of(attr(old.self, "_frequencies"))).cumsum().dtype
        return And(*[cum[k] == sumr(f, 0, k + 1) for k in range(len(f))], cum[-1] == result["total"], result["total"] == total(f),
                   dtype_of(result["cumulative_frequencies"]) == wide)

    @ensures("errors_are_roots_of_errors2_and_nothing_changes")
    def _(a, old, result):
        e2, e = E(old.self), elems(result["errors"])
        # numpy takes the root of a narrow integer array in a narrow float type (int16 -> float16): the concrete comparison allows
        # that type's rounding
        rel = {2: 4e-3, 4: 1e-6}.get(dtype_of(result["errors"]).itemsize, 1e-9)
        return And(*[And(e[k] >= 0, close(e[k] * e[k], e2[k], rel=rel)) for k in range(len(e))], same_hist(old.self, a.self))


@contract(HNDK + ".bin_sizes", props=["C16"], name="HistogramND geometry")
class _geomnd:
    bounded = True
    bound_note = BOUND

    def configs():
        return [{"shape": (2, 2)}, {"shape": (1, 2, 2)}]

    def inputs(b):
        c = b.cfg
        d = len(c.shape)
        bins = [make_binning(b, f"B{i}", "static" if i == 0 else "numpy", s) for i, s in enumerate(c.shape)]
        return dict(self=histnd(b, "h", bins, c.shape))

    def invoke(I, fn, a, cfg):
        d = len(cfg.shape)
        if I is not None:
            g = lambda n, *args: I.call(I.getattr(a.self, n), list(args), {})
            return {"bin_sizes": I.getattr(a.self, "bin_sizes"), "densities": I.getattr(a.self, "densities"), "total_size": I.getattr(a.self, "total_size"),
                    "widths": [g("get_bin_widths", i) for i in range(d)], "centers": [g("get_bin_centers", i) for i in range(d)],
                    "left": [g("get_bin_left_edges", i) for i in range(d)], "right": [g("get_bin_right_edges", i) for i in range(d)],
                    "edges": [g("get_bin_edges", i) for i in range(d)],
                    "mesh_widths": g("get_bin_widths"), "mesh_centers": g("get_bin_centers"), "mesh_left": g("get_bin_left_edges")}
        h = a.self
        return {"bin_sizes": h.bin_sizes, "densities": h.densities, "total_size": h.total_size,
                "widths": [h.get_bin_widths(i) for i in range(d)], "centers": [h.get_bin_centers(i) for i in range(d)],
                "left": [h.get_bin_left_edges(i) for i in range(d)], "right": [h.get_bin_right_edges(i) for i in range(d)],
                "edges": [h.get_bin_edges(i) for i in range(d)],
                "mesh_widths": h.get_bin_widths(), "mesh_centers": h.get_bin_centers(), "mesh_left": h.get_bin_left_edges()}

    @ensures("sizes_are_products_of_widths_and_densities_invert_them")
    def _(a, old, result):
        bs = [bins_of(x) for x in attr(old.self, "_binnings")]
        shape = tuple(len(x) for x in bs)
        f = F(old.self)
        s, d = elems(result["bin_sizes"]), elems(result["densities"])
        cs = [shape_of(result["bin_sizes"]) == shape]
        tot = 0
        for pos, cell in enumerate(itertools.product(*[range(n) for n in shape])):
            size = 1
            for ax, k in enumerate(cell):
                size = size * (bs[ax][k][1] - bs[ax][k][0])
            cs.append(s[pos] == size)
            cs.append(close(d[pos] * size, f[pos]))
            tot = tot + size
        cs.append(result["total_size"] == tot)
        return And(*cs)

    @ensures("per_axis_and_mesh_forms_agree_with_bins")
    def _(a, old, result):
        bs = [bins_of(x) for x in attr(old.self, "_binnings")]
        shape = tuple(len(x) for x in bs)
        cs = []
        for ax, b_ in enumerate(bs):
            w, c, l, r, e = (elems(result[k][ax]) for k in ("widths", "centers", "left", "right", "edges"))
            for k, (lo, hi) in enumerate(b_):
                cs += [w[k] == hi - lo, 2 * c[k] == lo + hi, l[k] == lo, r[k] == hi, e[k] == lo, e[k + 1] == hi]
            mw, mc, ml = elems(result["mesh_widths"][ax]), elems(result["mesh_centers"][ax]), elems(result["mesh_left"][ax])
            cs.append(shape_of(result["mesh_widths"][ax]) == shape)
            for pos, cell in enumerate(itertools.product(*[range(n) for n in shape])):
                cs += [mw[pos] == w[cell[ax]], mc[pos] == c[cell[ax]], ml[pos] == l[cell[ax]]]
        return And(same_hist(old.self, a.self), *cs)



def exactly_consecutive(bins):
    return And(*[bins[k][1] == bins[k + 1][0] for k in range(len(bins) - 1)]) if len(bins) > 1 else True
