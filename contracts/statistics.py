"""Contracts of physt.statistics (C14, C06, C05).

Statistics is a frozen dataclass (sum, sum2, min, max, weight, median).  Fields are symbolic reals; both Python
floats and numpy float64 scalars are covered (they differ in division by zero)."""
from pyvc.vc import contract, ensures, raises
from pyvc.spec import *

K = "physt.statistics:Statistics"
NAN = float("nan")


def stats(b, name, np_kind=False, median=NAN):
    return b.obj(K, sum=b.real(name + ".sum", np_kind), sum2=b.real(name + ".sum2", np_kind),
                 min=b.real(name + ".min", np_kind), max=b.real(name + ".max", np_kind),
                 weight=b.real(name + ".weight", np_kind), median=median)


def invalid(b):
    return b.obj(K, sum=NAN, sum2=NAN, min=NAN, max=NAN, weight=NAN, median=NAN)


def all_nan(s):
    return And(isnan(s.sum), isnan(s.sum2), isnan(s.min), isnan(s.max), isnan(s.weight))


def _kinds():
    return [{"np": False}, {"np": True}]


@contract(K + ".mean", props=["C14"])
class _mean:
    configs = staticmethod(_kinds)

    def inputs(b):
        return dict(self=stats(b, "s", b.cfg.np))

    @ensures("mean_is_sum_over_weight")
    def _(a, old, result):
        w, s = old.self.weight, old.self.sum
        return Implies(w != 0, And(Not(isnan(result)), close(result * w, s)))

    @ensures("empty_gives_nan")
    def _(a, old, result):
        return Implies(And(old.self.weight == 0, old.self.sum == 0), isnan(result))

    @ensures("frame")
    def _(a, old, result):
        return unchanged(old.self, a.self)


@contract(K + ".variance", props=["C14"])
class _variance:
    configs = staticmethod(_kinds)

    def inputs(b):
        return dict(self=stats(b, "s", b.cfg.np))

    @ensures("population_variance")
    def _(a, old, result):
        w, s, s2 = old.self.weight, old.self.sum, old.self.sum2
        return Implies(w > 0, And(Not(isnan(result)), close(result * w * w, s2 * w - s * s)))

    @ensures("nan_without_weight")
    def _(a, old, result):
        return Implies(old.self.weight <= 0, isnan(result))

    @ensures("frame")
    def _(a, old, result):
        return unchanged(old.self, a.self)


@contract(K + ".std", props=["C14"])
class _std:
    def inputs(b):
        return dict(self=stats(b, "s"))

    @ensures("std_squared_is_variance")
    def _(a, old, result):
        w, s, s2 = old.self.weight, old.self.sum, old.self.sum2
        return Implies(And(w > 0, s2 * w - s * s >= 0), And(result >= 0, close(result * result * w * w, s2 * w - s * s)))

    @ensures("nan_without_weight")
    def _(a, old, result):
        return Implies(old.self.weight <= 0, isnan(result))


@contract(K + ".__add__", props=["C14", "C05"])
class _add:
    configs = staticmethod(_kinds)

    def inputs(b):
        return dict(self=stats(b, "s", b.cfg.np), other=stats(b, "o", b.cfg.np))

    @ensures("fields_add")
    def _(a, old, result):
        s, o = old.self, old.other
        return And(result.sum == s.sum + o.sum, result.sum2 == s.sum2 + o.sum2, result.weight == s.weight + o.weight,
                   result.min == fmin(s.min, o.min), result.max == fmax(s.max, o.max), isnan(result.median))

    @ensures("operands_unchanged")
    def _(a, old, result):
        return And(unchanged(old.self, a.self), unchanged(old.other, a.other))

    @ensures("commutative")          # property-level: s + o and o + s agree field by field
    def _(a, old, result):
        s, o = old.self, old.other
        return And(s.sum + o.sum == o.sum + s.sum, fmin(s.min, o.min) == fmin(o.min, s.min),
                   fmax(s.max, o.max) == fmax(o.max, s.max))


@contract(K + ".__add__", props=["C14"], name=K + ".__add__[non-statistics]")
class _add_other:
    def inputs(b):
        return dict(self=stats(b, "s"), other=b.real("x"))

    @ensures("invalid_not_numbers")
    def _(a, old, result):
        return all_nan(result)


@contract(K + ".__mul__", props=["C06", "C14"])
class _mul:
    def configs():
        return [{"np": False, "ck": "float"}, {"np": True, "ck": "float"}, {"np": False, "ck": "int"},
                {"np": False, "ck": "npfloat"}, {"np": True, "ck": "npint"}]

    def inputs(b):
        ck = b.cfg.ck
        c = b.real("c", np=(ck == "npfloat")) if ck in ("float", "npfloat") else b.int("c", np=(ck == "npint"))
        return dict(self=stats(b, "s", b.cfg.np), other=c)

    @ensures("weight_scales")
    def _(a, old, result):
        return result.weight == old.self.weight * old.other

    @ensures("mean_invariant")        # sum/weight unchanged  <=>  sum' * weight == sum * weight'
    def _(a, old, result):
        return result.sum * old.self.weight == old.self.sum * result.weight

    @ensures("variance_invariant")    # (s2' w' - s'^2) / w'^2 == (s2 w - s^2) / w^2  for c != 0
    def _(a, old, result):
        s, w, s2 = old.self.sum, old.self.weight, old.self.sum2
        s_, w_, s2_ = result.sum, result.weight, result.sum2
        return Implies(And(old.other > 0, w > 0), (s2_ * w_ - s_ * s_) * w * w == (s2 * w - s * s) * w_ * w_)

    @ensures("min_max_median_kept")
    def _(a, old, result):
        return And(result.min == old.self.min, result.max == old.self.max, same(result.median, old.self.median))

    @ensures("operand_unchanged")
    def _(a, old, result):
        return unchanged(old.self, a.self)


@contract(K + ".__mul__", props=["C14"], name=K + ".__mul__[array]")
class _mul_arr:
    def inputs(b):
        return dict(self=stats(b, "s"), other=b.array("arr", 2))

    @ensures("invalid_not_numbers")
    def _(a, old, result):
        return all_nan(result)
