"""C08: JSON round trip (bounded extents; exact -- no float arithmetic is performed on the path).

Assumed stub: json.loads(json.dumps(x)) == J(x), J maps tuples to lists and is the identity on None / bool / int /
float / str / list / dict-with-str-keys (floats round-trip through repr); ndarray.tolist / np.asarray are inverse."""
import numpy as np
from pyvc.vc import contract, ensures, raises
from pyvc.spec import *
from .common import *
from .arith import F, E, M
from .special import special_hist, SP

BOUND = "JSON: 1D with 2 bins, ND with shapes up to (1,2,1); contents, edges, metadata values symbolic/concrete"


def J(x):
    if isinstance(x, (list, tuple)):
        return [J(y) for y in x]
    if isinstance(x, dict):
        return {k: J(v) for k, v in x.items()}
    return x


def _rt_cfgs():
    out = []
    for kind in ("static", "gapped", "numpy", "fixed", "fixed_adaptive", "exponential"):
        for dtype in ("int64", "float64"):
            out.append({"cls": "Histogram1D", "kind": kind, "dtype": dtype, "keep_missed": True, "meta": "plain"})
    out.append({"cls": "Histogram1D", "kind": "static", "dtype": "float64", "keep_missed": False, "meta": "custom"})
    out.append({"cls": "Histogram1D", "kind": "fixed", "dtype": "int32", "keep_missed": True, "meta": "custom"})
    out.append({"cls": "Histogram1D", "kind": "static_open", "dtype": "int64", "keep_missed": True, "meta": "plain"})
    for cls in ("Histogram2D", "HistogramND"):
        for kind in ("static", "fixed"):
            out.append({"cls": cls, "kind": kind, "dtype": "int64", "keep_missed": True, "meta": "custom"})
    for cls in ("RadialHistogram", "PolarHistogram", "SphericalHistogram", "CylindricalSurfaceHistogram", "AzimuthalHistogram"):
        out.append({"cls": cls, "kind": "static", "dtype": "float64", "keep_missed": True, "meta": "plain"})
    return out


SHAPES = {"Histogram1D": (2,), "Histogram2D": (1, 2), "HistogramND": (1, 2, 1), "RadialHistogram": (2,), "AzimuthalHistogram": (2,),
          "PolarHistogram": (1, 2), "SphericalHistogram": (1, 1, 2), "CylindricalSurfaceHistogram": (2, 1)}


def build_binning(b, name, kind, n):
    if kind == "fixed_adaptive":
        return fixed_width(b, name, count=n, adaptive=True)
    if kind == "static_open":
        return static_binning(b, name, n, consecutive=True, ire=False)
    if kind == "exponential":
        lm, lw = b.real(name + ".logmin"), b.real(name + ".logw")
        b.assume(lw > 0)
        return b.obj(EXB, _consecutive=None, _bins=None, _numpy_bins=None, _includes_right_edge=True, _adaptive=False,
                     _log_min=lm, _log_width=lw, _bin_count=n)
    return make_binning(b, name, kind, n)


def build_hist(b):
    c = b.cfg
    shape = SHAPES[c.cls]
    d = len(shape)
    meta = {"name": "nm", "title": "tt", "axis_names": tuple(f"a{i}" for i in range(d))}
    if c.cls in ("AzimuthalHistogram", "SphericalSurfaceHistogram", "CylindricalSurfaceHistogram"):
        meta["radius"] = 1
    if c.meta == "custom":
        meta.update({"custom_number": 3, "custom_list": [1, "x"], "custom_none": None})
    bins = [build_binning(b, f"B{i}", c.kind, s) for i, s in enumerate(shape)]
    if d == 1:
        h = hist1d(b, "h", bins[0], shape[0], dtype=c.dtype, keep_missed=c.keep_missed, meta=meta, stats=None)
        if not c.keep_missed:       # invariant established by the constructor: nothing is recorded when tracking is off
            for x in elems(attr(h, "_missed")):
                b.assume(x == 0)
        klass = H1 if c.cls == "Histogram1D" else SP + c.cls
        o = b.obj(klass, **{k: attr(h, k) for k in ("_binnings", "_frequencies", "_errors2", "_missed", "_dtype", "_meta_data", "keep_missed")})
        object.__setattr__(o, "_stats", None) if False else None
        return o
    klass = {"Histogram2D": H2, "HistogramND": HND}.get(c.cls, SP + c.cls)
    return histnd(b, "h", bins, shape, dtype=c.dtype, cls=klass, keep_missed=c.keep_missed, meta=meta)


@contract("physt.io.json:parse_json", props=["C08"], name="JSON round trip")
class _roundtrip:
    bounded = True
    bound_note = BOUND
    configs = staticmethod(_rt_cfgs)

    def inputs(b):
        h = build_hist(b)
        if not has(h, "_stats") and typename(h) in ("Histogram1D", "RadialHistogram", "AzimuthalHistogram"):
            from .common import statistics
            setattr_raw(h, "_stats", statistics(b, "st", valid=False))
        return dict(h=h)

    def invoke(I, fn, a, cfg):
        if I is not None:
            text = I.call(I.find("physt.io.json:save_json"), [a.h], {})
            h2 = I.call(fn, [text], {})
            text2 = I.call(I.find("physt.io.json:save_json"), [h2], {})
            return (h2, text.value, text2.value)
        import json
        text = a.h.to_json()
        from physt.io import parse_json
        h2 = parse_json(text)
        return (h2, json.loads(text), json.loads(h2.to_json()))

    @ensures("same_class_and_binnings")
    def _(a, old, result):
        h2 = result[0]
        b0, b1 = attr(old.h, "_binnings"), attr(h2, "_binnings")
        cs = [typename(h2) == typename(old.h), len(b0) == len(b1)]
        for x, y in zip(b0, b1):
            cs.append(typename(x) == typename(y))
            if typename(x) == typename(y):
                cs.append(same_binning(x, y))
        return And(*cs)

    @ensures("contents_errors_dtype")
    def _(a, old, result):
        h2 = result[0]
        return And(same(attr(old.h, "_frequencies"), attr(h2, "_frequencies")), same(attr(old.h, "_errors2"), attr(h2, "_errors2")),
                   attr(h2, "_dtype") == attr(old.h, "_dtype"), dtype_of(attr(h2, "_frequencies")) == attr(old.h, "_dtype"))

    @ensures("missed_values_and_keep_missed")
    def _(a, old, result):
        h2 = result[0]
        return And(h2.keep_missed == old.h.keep_missed, same(elems(attr(old.h, "_missed")), elems(attr(h2, "_missed"))),
                   shape_of(attr(h2, "_missed")) == shape_of(attr(old.h, "_missed")))

    @ensures("metadata")
    def _(a, old, result):
        h2 = result[0]
        return same(J(attr(old.h, "_meta_data")), J(attr(h2, "_meta_data")))

    @ensures("serialising_again_gives_the_same_document")
    def _(a, old, result):
        return same(result[1], result[2])


def setattr_raw(o, name, v):
    from pyvc.values import Obj, obj_dict
    if isinstance(o, Obj):
        obj_dict(o)[name] = v
    else:
        object.__setattr__(o, name, v)


@contract("physt.io.version:require_compatible_version", props=["C08"])
class _version:
    def configs():
        return [{"v": v} for v in ("0.3.20", "0.8.4", "0.8.5", "0.8.4.post1", "1.0", "0.10.0", "0.8.4rc1", "0.4.5")]

    def inputs(b):
        return dict(compatible_version=b.cfg.v)

    @ensures("accepted_only_if_not_newer_than_the_running_version")
    def _(a, old, result):
        from packaging.version import Version
        import physt
        return Version(physt.__version__) >= Version(old.compatible_version)

    @raises("physt.io.version:VersionError", "newer_required_version_is_refused")
    def _(o):
        from packaging.version import Version
        import physt
        return Version(physt.__version__) < Version(o.compatible_version)


@contract("physt.io.util:create_from_dict", props=["C08"], name="create_from_dict[version gate]")
class _gate:
    bounded = True
    bound_note = BOUND

    def configs():
        return [{"v": "99.0"}, {"v": "0.8.5"}, {"v": "99.0", "collection": True}, {"v": "0.10.0", "collection": True}]

    def inputs(b):
        if getattr(b.cfg, "collection", False):          # the stamp of a collection document is checked like any other
            from .more import collection
            return dict(h=collection(b, 2))
        binning = make_binning(b, "B", "static", 2)
        h = hist1d(b, "h", binning, 2, stats=None)
        return dict(h=h)

    def invoke(I, fn, a, cfg):
        if I is not None:
            d = I.call(I.getattr(a.h, "to_dict"), [], {})
            d["physt_compatible"] = cfg.v
            return I.call(fn, [d, "JSON"], {})
        d = a.h.to_dict()
        d["physt_compatible"] = cfg.v
        return fn(d, "JSON")

    @raises("physt.io.version:VersionError", "document_requiring_a_newer_physt_is_refused")
    def _(o):
        return True
