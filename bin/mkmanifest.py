#!/usr/bin/env python3
"""Regenerate MANIFEST.json from props/table.py (keeps it schema-valid)."""
import json, os, sys
ROOT = os.path.dirname(os.path.dirname(os.path.abspath(__file__)))
sys.path.insert(0, ROOT)
from props.table import CHECKS, NOT_APPLICABLE, SOURCE_COMMITS
props = [json.loads(l) for l in open(os.path.join(ROOT, "properties.jsonl"))]
ids = [p["id"] for p in props]
checks = []
for pid in ids:
    if pid in CHECKS:
        c = CHECKS[pid]
        checks.append({"property_id": pid, "quick_cmd": f"bin/vcheck {pid} --tier quick", "thorough_cmd": f"bin/vcheck {pid} --tier thorough",
                       "evidence_file": f"evidence/{pid}.json", "replay_cmd_template": f"bin/vcheck {pid} --replay {{path}}",
                       "engine": "pyvc", "level_claimed": {"category": c["category"], "text": c["text"], "design_ref": c.get("design_ref", "DESIGN.md section 5")},
                       "level_note": c["note"], "technique": c["technique"]})
na = [{"property_id": pid, "reason": NOT_APPLICABLE.get(pid, "check not built yet (work in progress)")} for pid in ids if pid not in CHECKS]
m = {"version": 1, "setup_cmd": "bin/setup.sh",
     "hooks": {"guard": "PHYST_VERIF", "enable": "no hook is needed: contracts are sidecar files under /verif/contracts; the verifier re-reads /repo/src on every run",
               "baseline_off_cmd": "cd /repo && /venv/bin/python -m pytest -ra -q -p no:cacheprovider --timeout=900 --continue-on-collection-errors",
               "source_commits": SOURCE_COMMITS, "add_only": True},
     "engines": [{"name": "pyvc", "path": "pyvc/", "serves_properties": sorted(CHECKS),
                  "kind_free_text": "verification-condition generator: symbolic interpreter over the real AST of /repo/src/physt, sidecar contracts (/verif/contracts), loops of symbolic length cut at sidecar invariants, inductive lemmas proved per run; z3 back end (cvc5 second opinion on lemma obligations and Lean on one assumed lemma in the thorough tier), counterexample replay on the real code"}],
     "checks": checks,
     "notes": "Contract-based deductive verification (self-generated VCs, z3). See DESIGN.md. Exit codes: 0 held / 1 violation / 3 checker fault.",
     "not_applicable": na}
json.dump(m, open(os.path.join(ROOT, "MANIFEST.json"), "w"), indent=1)
try:
    import jsonschema
    jsonschema.validate(m, json.load(open("/root/.vp/MANIFEST.schema.json")))
    print("MANIFEST.json valid;", len(checks), "checks,", len(na), "not claimed")
except ImportError:
    print("written (jsonschema not available)")
