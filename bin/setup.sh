#!/bin/bash
# Build the overlay venv (python 3.12 of /venv + z3-solver, cvc5, jsonschema from the offline wheelhouse,
# plus /venv's site-packages through a .pth) so that one interpreter has both the solvers and physt's deps.
# Idempotent; everything lives under /verif/.venv (nothing under /tmp).
set -e
cd "$(dirname "$0")/.."
V=.venv
if [ ! -x "$V/bin/python" ] || ! "$V/bin/python" -c "import z3, numpy, physt" 2>/dev/null; then
  rm -rf "$V"
  /venv/bin/python -m venv "$V"
  PIP_NO_INDEX=1 "$V/bin/pip" install -q --no-index --find-links /opt/veriftools/wheels z3-solver cvc5 jsonschema >/dev/null
  SP=$("$V/bin/python" -c "import sysconfig; print(sysconfig.get_paths()['purelib'])")
  echo "import site; site.addsitedir('/venv/lib/python3.12/site-packages')" > "$SP/_repo_overlay.pth"
fi
"$V/bin/python" -c "import z3, numpy, physt, sys; print('setup ok: z3', z3.get_version_string(), 'numpy', numpy.__version__, 'physt from', physt.__file__)"
