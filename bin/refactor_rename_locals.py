"""Semantics-preserving refactoring of a source tree: every function-local variable (not a parameter, not global/nonlocal,
not used by a nested scope) is renamed x -> x_rf; the file is re-emitted with ast.unparse (comments / layout dropped)."""
import ast, sys, os

class Scope(ast.NodeVisitor):
    def __init__(self, fn):
        self.fn = fn
        self.assigned, self.banned = set(), set()
        a = fn.args
        for p in a.posonlyargs + a.args + a.kwonlyargs:
            self.banned.add(p.arg)
        if a.vararg: self.banned.add(a.vararg.arg)
        if a.kwarg: self.banned.add(a.kwarg.arg)
        for st in fn.body:
            self.visit(st)
    def visit_FunctionDef(self, n):
        # nested function: every name it mentions stays as it is (closure variables)
        self.banned.add(n.name)
        for x in ast.walk(n):
            if isinstance(x, ast.Name): self.banned.add(x.id)
            if isinstance(x, ast.arg): self.banned.add(x.arg)
    visit_AsyncFunctionDef = visit_FunctionDef
    def visit_Lambda(self, n):
        for x in ast.walk(n):
            if isinstance(x, ast.Name): self.banned.add(x.id)
            if isinstance(x, ast.arg): self.banned.add(x.arg)
    def visit_ClassDef(self, n):
        self.banned.add(n.name)
        for x in ast.walk(n):
            if isinstance(x, ast.Name): self.banned.add(x.id)
    def comp(self, n):
        for x in ast.walk(n):
            if isinstance(x, ast.Name): self.banned.add(x.id)
    visit_ListComp = visit_SetComp = visit_DictComp = visit_GeneratorExp = comp
    def visit_Global(self, n): self.banned.update(n.names)
    def visit_Nonlocal(self, n): self.banned.update(n.names)
    def visit_Import(self, n):
        for a in n.names: self.banned.add((a.asname or a.name).split(".")[0])
    visit_ImportFrom = visit_Import
    def visit_Name(self, n):
        if isinstance(n.ctx, (ast.Store, ast.Del)):
            self.assigned.add(n.id)
    def visit_ExceptHandler(self, n):
        if n.name: self.banned.add(n.name)
        self.generic_visit(n)

class Renamer(ast.NodeTransformer):
    def __init__(self, names): self.names = names
    def visit_Name(self, n):
        if n.id in self.names:
            n.id = n.id + "_rf"
        return n
    def visit_FunctionDef(self, n): return n      # do not descend into nested scopes (their names are banned anyway)
    visit_AsyncFunctionDef = visit_Lambda = visit_ClassDef = visit_FunctionDef

def process(tree):
    count = 0
    for node in ast.walk(tree):
        if isinstance(node, (ast.FunctionDef, ast.AsyncFunctionDef)):
            sc = Scope(node)
            names = {x for x in sc.assigned - sc.banned if not x.startswith("__")}
            if names:
                r = Renamer(names)
                node.body = [r.visit(st) if not isinstance(st, (ast.FunctionDef, ast.AsyncFunctionDef, ast.ClassDef)) else st for st in node.body]
                count += len(names)
    return count

total = 0
for dp, dn, fn in os.walk(sys.argv[1]):
    for f in fn:
        if f.endswith(".py"):
            p = os.path.join(dp, f)
            tree = ast.parse(open(p).read())
            total += process(tree)
            open(p, "w").write(ast.unparse(tree) + "\n")
print("renamed", total, "locals")
